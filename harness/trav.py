"""Traversal harness: synthetic graphs made of REAL TestGraph / TestNode / TestWorker objects, an
exporter of any (static) TestGraph to the model's `graph` term, and an event-loop-free driver that
resumes the real traverse_object_trees coroutines one atomic section at a time under a chosen
schedule, with an in-memory state pool behind the state-control door."""
import functools
import re
from unittest import mock

from virttest.utils_params import Params

from harness import synth
from harness.common import cN, cZ, cnat, cbool, clist, cpair, copt

STATUS_T = {"PASS": "SPass", "FAIL": "SFail", "ERROR": "SError", "WARN": "SWarn", "SKIP": "SSkip", "CANCEL": "SCancel",
            "INTERRUPTED": "SInterrupted", None: None}


# ----------------------------------------------------------------------------- synthetic graphs
def build_graph(spec):
    """spec = {workers: [{id, swarm, spawner}], vms: {vm: {permanent}}, states: {vm: [{name, parent, level, unset, ...}]},
               leaves: [{name, gets: {vm: state}, params}], node_params: {...}, per_state_params}
    Every worker gets its own copy of every node; copies are bridged."""
    from avocado_i2n.cartgraph import TestGraph, TestNode
    synth.reset_swarms()
    g = TestGraph()
    workers = [synth.make_worker(w["id"], w.get("swarm", "localhost"), w.get("spawner", "lxc")) for w in spec["workers"]]
    g.new_workers(workers)
    root = synth.make_node("1", "all.internal.stateless.noop", None, [], {"shared_root": "yes", "get_state_nets": "root"})
    root.should_run = lambda x: False
    all_nodes = []
    classes = {}      # logical node name -> [node per worker]
    for wi, w in enumerate(workers):
        net, vms, imgs = synth.make_objects(w, {vm: {"images": ["image1"], "permanent": v.get("permanent", False)}
                                                 for vm, v in spec["vms"].items()})
        if wi == 0:
            g.new_objects([net] + list(vms.values()) + list(imgs.values()))
        else:
            g.new_objects([net])
        suffix = f"nets.{w.swarm_id}.{w.id.split('.')[-1]}"
        producers = {}     # (vm, state) -> node
        k = 0

        def mk(prefix, logical, vm_list, params, objroot=None):
            name = f"{logical}.vms.{'.'.join(vm_list)}.Linux.{suffix}"
            objs = [net]
            for vm in vm_list:
                objs += [vms[vm], imgs[(vm, "image1")]]
            p = dict(spec.get("node_params", {}))
            p.update(params)
            p["vms"] = " ".join(vm_list)
            for vm in vm_list:
                p[f"images_{vm}"] = "image1"
            p["_name_map_file"] = {"nets.cfg": suffix}
            if objroot:
                p["object_root"] = objroot
                p["configure_install"] = "stepmaker"
            n = synth.make_node(prefix, name, w, objs, p)
            classes.setdefault(logical, []).append(n)
            all_nodes.append(n)
            return n
        for vm, states in spec["states"].items():
            for st in states:
                k += 1
                level = st.get("level", "images")
                key = f"set_state_{level}_image1_{vm}" if level == "images" else f"set_state_{level}_{vm}"
                params = {key: st["name"]}
                params.update(st.get("params", {}))
                if st.get("unset"):
                    if st.get("unset_spelling") == "untyped":      # object-specific but without the type word
                        ukey = f"unset_mode_image1_{vm}" if level == "images" else f"unset_mode_{vm}"
                    else:
                        ukey = f"unset_mode_{level}_image1_{vm}" if level == "images" else f"unset_mode_{level}_{vm}"
                    params[ukey] = st["unset"]
                if st["parent"] is None:
                    n = mk(f"{k}r", f"all.original.{st['name']}_{vm}", [vm], params, objroot=imgs[(vm, "image1")].id)
                    n.descend_from_node(root, imgs[(vm, "image1")])
                else:
                    plevel = next(s for s in states if s["name"] == st["parent"]).get("level", "images")
                    gkey = f"get_state_{plevel}_image1_{vm}" if plevel == "images" else f"get_state_{plevel}_{vm}"
                    params[gkey] = st["parent"]
                    n = mk(f"{k}s", f"all.internal.{st['name']}_{vm}", [vm], params)
                    pn = producers[(vm, st["parent"])]
                    n.descend_from_node(pn, imgs[(vm, "image1")] if plevel == "images" else vms[vm])
                producers[(vm, st["name"])] = n
        for li, leaf in enumerate(spec["leaves"]):
            if "only_workers" in leaf and wi not in leaf["only_workers"]:
                continue        # a test this worker's restrictions exclude: its setup stays (as if selected itself)
            params = dict(leaf.get("params", {}))
            for vm, stname in leaf["gets"].items():
                lvl = next(s for s in spec["states"][vm] if s["name"] == stname).get("level", "images")
                params[f"get_state_{lvl}_image1_{vm}" if lvl == "images" else f"get_state_{lvl}_{vm}"] = stname
            n = mk(str(li + 1), f"normal.nongui.{leaf['name']}", list(leaf["gets"]), params)
            for vm, stname in leaf["gets"].items():
                lvl = next(s for s in spec["states"][vm] if s["name"] == stname).get("level", "images")
                n.descend_from_node(producers[(vm, stname)], imgs[(vm, "image1")] if lvl == "images" else vms[vm])
    for members in classes.values():
        for a in range(len(members)):
            for b in range(a):
                members[a].bridge_with_node(members[b])
    g.new_nodes(all_nodes + [root])
    return g, workers, root


# ----------------------------------------------------------------------------- exporter
ROOTLIKE = ("", "0root", "root", "boot", "0boot", None)


def objid(o):
    return f"{o.key}:{o.long_suffix}"


def cfloat(x):
    return f"({float(x).hex()})%float"


class Export:
    """TestGraph -> model term; keeps the index maps for the event recorder"""

    def __init__(self, g, workers, run_params=None):
        from avocado_i2n import params_parser as param
        self.g, self.workers = g, workers
        self.nodes = list(g.nodes)
        self.nidx = {id(n): i for i, n in enumerate(self.nodes)}
        self.widx = {w.id: i for i, w in enumerate(workers)}
        self.swarms = sorted({w.swarm_id for w in workers})
        self.forms, self.regs, self.objs, self.states = {}, {}, {}, {}
        self.root = next(i for i, n in enumerate(self.nodes) if n.is_shared_root())
        self.run_params = run_params or {}
        self.byname = {n.params["name"]: i for i, n in enumerate(self.nodes)}
        self.dynamic = False          # lazy runs: the graph grows while it is traversed
        self.prefix0 = {i: n.prefix for i, n in enumerate(self.nodes)}
        # rank: position in the order induced by prefix_priority on long_prefix (ties share a rank)
        from avocado_i2n.cartgraph import TestNode
        order = sorted(range(len(self.nodes)), key=functools.cmp_to_key(
            lambda a, b: TestNode.prefix_priority(self.nodes[a].long_prefix, self.nodes[b].long_prefix)))
        self.rank = {}
        r = 0
        for k, i in enumerate(order):
            if k > 0 and TestNode.prefix_priority(self.nodes[order[k - 1]].long_prefix, self.nodes[i].long_prefix) != 0:
                r = k
            self.rank[i] = r

    def refresh(self):
        for n in self.g.nodes:
            if id(n) not in self.nidx:
                self.nidx[id(n)] = len(self.nodes)
                self.nodes.append(n)
                self.byname[n.params["name"]] = self.nidx[id(n)]
                self.prefix0[self.nidx[id(n)]] = n.prefix

    def ix(self, node):
        if id(node) not in self.nidx and self.dynamic:
            self.refresh()
        return self.nidx[id(node)]

    def intern(self, table, key):
        return table.setdefault(key, len(table) + 1)

    def O(self, o):
        return self.intern(self.objs, objid(o))

    def S(self, s):
        return self.intern(self.states, s)

    def nobj(self, n, o):
        op = o.object_typed_params(n.params)
        st = op.get("set_state") or None
        gt = op.get("get_state")
        gt = None if gt in ROOTLIKE else gt
        um = op.get("unset_mode", "ri")
        ucode = 0 if um[0] == "f" else (1 if um[0] == "r" else 2)
        vm_name = o.suffix if o.key == "vms" else (o.composites[0].suffix if o.key == "images" else "")
        sel_vms = self.run_params.get("vms")
        selected = True if sel_vms is None else vm_name in sel_vms
        return (f"(mkObj {cN(self.O(o))} {cbool(o.key == 'nets')} {'None' if st is None else copt(cN(self.S(st)))} "
                f"{'None' if gt is None or o.key == 'nets' else copt(cN(self.S(gt)))} {cN(ucode)} "
                f"{cbool(st == 'install' and o.is_permanent())} {cbool(selected)})")

    def reversible_marker(self, n):
        """default_clean_decision takes a node for "reversible" (guarded removal) when, for some object, unset_mode_images or
        unset_mode_vms - or, in their absence, the object's own typed unset_mode - starts with f. A key typed for the OTHER
        object type is visible there (unset_mode_images=fi is seen through a vm object), so a node can be guarded although
        none of its objects is marked. The model's `reversible` looks at the objects' own modes; the difference is carried
        by an inert marker object (a net object that sets nothing, mode f), which nothing else in the model reads."""
        def first(o, key):
            op = o.object_typed_params(n.params)
            return (op.get(key) or op.get("unset_mode", "ri"))[0]
        guarded = any(first(o, "unset_mode_images") == "f" or first(o, "unset_mode_vms") == "f" for o in n.objects)
        own = any(o.object_typed_params(n.params).get("unset_mode", "ri")[0] == "f" for o in n.objects)
        return ["(mkObj 0%N true None None 0%N false true)"] if guarded and not own else []

    def cfg(self, n):
        from harness.props.c10 import cfg_term
        p = n.params
        return cfg_term({"dry": p.get("dry_run", "no") == "yes", "flat": n.is_flat(), "cloned": len(n.cloned_nodes) > 0,
                         "replay": bool(p.get("replay")), "max_tries": p.get("max_tries"), "rerun_status": p.get("rerun_status"),
                         "stop_status": p.get("stop_status")})

    def node_term(self, i):
        n = self.nodes[i]
        p = n.params
        name = p["name"]
        owners = [self.widx[w.id] for w in self.workers if w.id in name]
        flat = n.is_flat()
        scope = "Global"
        if not flat:
            if "swarm" not in p["pool_scope"] and p.get("nets_spawner") == "lxc":
                scope = "PerWorker"
            elif "cluster" not in p["pool_scope"] and p.get("nets_spawner") == "remote":
                scope = "PerSwarm"
        scope_workers = [self.widx[w.id] for w in self.workers if (w.swarm_id + "." + w.id) in name]
        scope_swarms = [self.swarms.index(s) for s in self.swarms if s in name]
        first = next((self.widx[w.id] for w in self.workers if w.id in name), None)
        mct = p.get("max_concurrent_tries")
        pf = p.get("pool_filter", "reuse")
        edge = [(self.nidx[id(par)], [self.O(o) for o in objs if o.key != "nets"]) for par, objs in n.setup_nodes.items()]
        scopes = p.get("pool_scope", "").split()
        # the back-off period as the code computes it (harness glue: Python's round on a binary float)
        budget = int(p.get("test_timeout", 3600)) * max(int(p.get("max_tries", 1)), 1)      # at least one try (fix: in /repo)
        dt = round(max(budget / 1000, 0.1), 2)
        return (f"(mkNode {cbool(flat)} {cbool(n.is_shared_root())} {cbool(n.is_object_root())} {cbool(len(n.cloned_nodes) > 0)} "
                f"{cbool(p.get('dry_run', 'no') == 'yes')} {clist([cnat(x) for x in owners])} "
                f"{cN(self.intern(self.forms, n.bridged_form))} {cN(self.intern(self.regs, id(n._dropped_setup_nodes)))} "
                f"{clist([cnat(self.nidx[id(x)]) for x in n.setup_nodes])} {clist([cnat(self.nidx[id(x)]) for x in n.cleanup_nodes])} "
                f"{clist([cnat(self.nidx[id(x)]) for x in n.bridged_nodes])} "
                f"{clist([cpair(cnat(a), clist([cN(x) for x in sorted(b)])) for a, b in edge])} "
                f"{scope} {clist([cnat(x) for x in scope_workers])} {clist([cnat(x) for x in scope_swarms])} "
                f"{'None' if first is None else copt(cnat(first))} {self.cfg(n)} "
                f"{'None' if mct is None else copt(cZ(int(mct)))} {cZ(int(p.get('max_tries', 1)))} {cZ(int(p.get('test_timeout', 3600)))} {cfloat(float(budget))} {cfloat(dt)} {cZ(int(round(dt * 100)))} "
                f"{cN(0 if pf in ('reuse', 'block') else (1 if pf == 'copy' else 2))} {cbool('own' in scopes)} {cbool('shared' in scopes)} "
                f"{clist([self.nobj(n, o) for o in n.objects] + self.reversible_marker(n))} {cnat(self.rank[i])})")

    def worker_term(self, w):
        members = [self.widx[v.id] for v in self.workers if w.swarm_id in v.id]
        sufs = [self.widx[u.id] for u in self.workers if u.id.endswith(w.id)]
        return (f"(mkWorker {cnat(self.swarms.index(w.swarm_id))} {cbool(w.swarm_id == 'localhost')} "
                f"{clist([cnat(x) for x in members])} {clist([cnat(x) for x in sufs])})")

    def graph_term(self):
        return (f"(mkGraph {clist([self.node_term(i) for i in range(len(self.nodes))])} "
                f"{clist([self.worker_term(w) for w in self.workers])} {cnat(self.root)})")

    def store_term(self, store):
        items = []
        for loc, sts in store.items():
            l = "None" if loc is None else copt(cnat(self.widx[loc]))
            items.append(cpair(l, clist([cpair(cN(self.intern(self.objs, o)), cN(self.S(s))) for o, s in sorted(sts)])))
        return clist(items)


# ----------------------------------------------------------------------------- driver
class Suspend:
    def __init__(self, req):
        self.req = req

    def __await__(self):
        result = yield self.req
        return result


class Session:
    def __init__(self, worker):
        self.worker = worker

    def cmd_output(self, *a, **k):
        return "ok"

    def close(self):
        pass


class Run:
    """One traversal of a graph under a schedule. events: list (per atomic section) of lists."""

    def __init__(self, g, workers, export, store, traverse_params=None, max_sections=4000):
        self.g, self.workers, self.x = g, workers, export
        self.store = {k: set(v) for k, v in store.items()}     # loc (None | worker id) -> {(objid, state)}
        self.params = traverse_params
        self.sections = []          # (worker idx, outcome or None) as actually scheduled
        self.events = []            # per section
        self.cur = Section()
        self.monitor = []           # property monitors evaluated on the implementation's behaviour
        self.c01_detail = {}
        self.c01_removed = {}
        self.removal_log = []       # (removing worker, states) in the order of the removals
        self.max_sections = max_sections
        self.running = {}           # worker idx -> (node, pre)
        self.t = 0                  # logical clock: section counter
        self.intervals = []         # (node idx class key, worker, start section, end section)
        self.attempted_failed = set()   # classes with an execution (or creation pre-step) that did not pass

    # -- the state-control door
    def door(self):
        run = self

        class Door:
            DUMP_CONTROL_DIR = "/tmp"

            @staticmethod
            def set_subcontrol_parameter(path, key, val):
                tok = dict(path) if isinstance(path, dict) else {"path": path}
                tok[key] = val
                return tok

            @staticmethod
            def set_subcontrol_parameter_dict(tok, key, val):
                tok = dict(tok)
                tok[key] = dict(val)
                return tok

            @staticmethod
            def run_subcontrol(session, tok):
                return run.door_request(session.worker, tok["action"], tok["params"])
        return Door

    def door_request(self, worker, action, p):
        from aexpect.exceptions import ShellCmdError
        w = self.x.widx[worker.id]
        if p["name"] not in self.x.byname and self.x.dynamic:
            self.x.refresh()
        ni = self.x.byname[p["name"]]
        scopes = p.get("pool_scope", "").split()
        if action == "check":
            wanted = [(f"{m.group(1)}:{m.group(2)}", v) for k, v in p.items()
                      for m in [re.match(r"check_state_(vms|images|nets)_(.+)$", k)] if m]
            ok = all((("own" in scopes and x in self.store.get(worker.id, set())) or
                      ("shared" in scopes and x in self.store.get(None, set()))) for x in wanted)
            self.cur.append(("scan", w, ni, not ok))
            if not ok:
                raise ShellCmdError("check", 1, "AssertionError: state missing")
            return
        key = "unset_state" if action == "unset" else "get_state"
        sts = [(f"{m.group(1)}:{m.group(2)}", v) for k, v in p.items()
               for m in [re.match(key + r"_(vms|images|nets)_(.+)$", k)] if m]
        # the vm-level suffix in sync_states is the bare vm name, the image-level one image_vm
        self.cur.append(("door", w, ni, action == "unset", sorted(sts)))
        if action == "unset":
            self.monitor_unset(w, ni, sts)
            self.store.setdefault(worker.id, set()).difference_update(sts)
        else:
            for x in sts:
                if x in self.store.get(None, set()):
                    self.store.setdefault(worker.id, set()).add(x)

    # -- monitors (C01, C04, C05, C08) on the implementation's behaviour
    def monitor_start(self, w, node, pre):
        worker = self.workers[w]
        ni = self.x.nidx.get(id(node))
        if ni is None:
            return
        n = node
        if worker.id not in n.params["name"] or n.params.get("nets") != worker.id:
            self.monitor.append(("C08", "started by a worker it was not parsed for", w, ni))
        for k in ("nets_shell_host", "nets_shell_port", "nets_host", "nets_gateway", "nets_spawner"):
            if n.params.get(k) != worker.params.get(k):
                self.monitor.append(("C08", f"connection parameter {k} is not the worker's", w, ni))
        if pre:
            return
        for o in n.objects:
            if o.key == "nets":
                continue
            op = o.object_typed_params(n.params)
            gt = op.get("get_state")
            if gt in ROOTLIKE:
                continue
            if o.is_permanent():
                continue            # externally provided states of permanent objects are taken as given
            x = (objid(o), gt)
            locs = n.params.get(f"get_location_{o.long_suffix}", "").split()
            scopes = n.params.get("pool_scope", "").split()
            places = [worker.id] if "own" in scopes else []
            for loc in locs:
                wid, _ = loc.split(":")
                if not wid:
                    if "shared" in scopes:
                        places.append(None)
                    continue
                srcw = next((v for v in self.workers if v.id == wid), None)
                # another worker's pool can only be used if the scope between the two workers is enabled
                between = "swarm" if srcw is not None and srcw.params.get("nets_gateway") == worker.params.get("nets_gateway") else "cluster"
                if wid == worker.id or between in scopes:
                    places.append(wid)
                if wid:
                    # the access parameters of that worker must come along
                    src = next((v for v in self.workers if v.id == wid), None)
                    if src is None or n.params.get(f"nets_shell_host_{wid}") != src.params.get("nets_shell_host"):
                        self.monitor.append(("C08", "location named without that worker's access parameters", w, ni))
                    if src is not None and not any(r["status"] == "PASS" and wid in r["name"]
                                                   for par in n.setup_nodes for r in par.shared_results):
                        self.monitor.append(("C08", "location names a worker that did not produce the state", w, ni))
            # completeness: every worker with a PASS result on the producing parent is named as a source
            for par, objs in n.setup_nodes.items():
                if o not in objs:
                    continue
                for r in par.shared_results:
                    if r["status"] != "PASS":
                        continue
                    prod = next((v.id for v in self.workers if v.id in r["name"]), None)
                    if prod is not None and not any(loc.split(":")[0] == prod for loc in locs):
                        self.monitor.append(("C08", f"producer {prod} of {x} is not named as a source", w, ni))
            if not any(x in self.store.get(pl, set()) for pl in places):
                producer = next((par for par, objs in n.setup_nodes.items() if o in objs), None)
                attempted = producer is not None and producer.bridged_form in self.attempted_failed
                if not attempted:
                    # who holds the state right now, and which pool scope separates that worker from this one
                    holders = [(v.id, "swarm" if v.params.get("nets_gateway") == worker.params.get("nets_gateway") else "cluster")
                               for v in self.workers if v.id != worker.id and x in self.store.get(v.id, set())]
                    self.c01_detail[(w, ni, x)] = holders
                    self.monitor.append(("C01", f"state {x} available in none of {places}", w, ni))
                    # C05, seen from the dependant: its state was removed (by a worker it was told to fetch from) before it ran
                    for rw, rsts, reached in self.removal_log:
                        if x in rsts and rw == worker.id:
                            # ... or by its own worker, before this dependant existed for it (lazy expansion after the producer ran)
                            self.monitor.append(("C05", f"state removed by {rw} before its own dependant, expanded later, started", w, ni))
                            self.c01_removed[(w, ni, x)] = "own"
                            break
                        if x in rsts and rw != worker.id and any(loc.split(":")[0] == rw for loc in locs):
                            if worker.id not in reached:
                                # the dependant's worker had not even reached the producer: it was not "involved" yet
                                self.monitor.append(("C05", f"state removed before the worker of a dependant arrived at the producer", w, ni))
                                self.c01_removed[(w, ni, x)] = "late"
                                break
                            self.c01_removed[(w, ni, x)] = "reached"
                            cross = " in another swarm" if (next(v for v in self.workers if v.id == rw).swarm_id != worker.swarm_id
                                                            and next(v for v in self.workers if v.id == rw).swarm_id != "localhost") else ""
                            self.monitor.append(("C05", f"state removed by {rw} before its dependant on {worker.id} started" + cross, w, ni))
                            break

    def monitor_unset(self, w, ni, sts):
        """C05: a removed state must have no running or pending dependant on the removing worker itself or on a
        worker whose test was told to fetch that state from the removing worker's pool"""
        n = self.x.nodes[ni]
        worker = self.workers[w]
        removed = {o for o, s in sts}
        # workers that had already picked (reached, possibly bounced off) a copy of the producer when it was removed
        cls = {id(m) for m in [n] + list(n.bridged_nodes)}
        reached = set()
        for evs in self.events + [self.cur]:
            for e in evs:
                if e[0] == "pick" and e[3] is not None and 0 <= e[3] < len(self.x.nodes) and id(self.x.nodes[e[3]]) in cls:
                    reached.add(self.workers[e[1]].id)
        self.removal_log.append((worker.id, set(sts), reached))
        # each removed state has to be a state this node sets on an object whose own (typed) unset_mode asks for removal
        for okey, sname in sts:
            objs = [o for o in n.objects if objid(o) == okey]
            asked = any(o.object_typed_params(n.params).get("unset_mode", "ri")[0] == "f" and
                        o.object_typed_params(n.params).get("set_state") == sname for o in objs)
            if not asked:
                self.monitor.append(("C05", f"state removed although it is not marked for removal ({okey}: {sname})", w, ni))
                break
        for member in [n] + list(n.bridged_nodes):
            for child in member.cleanup_nodes:
                cw = child.params.get("nets")
                # another worker's test can only fetch from the removing worker's pool if the pool scope
                # between the two (swarm: same gateway, cluster: another gateway) is enabled for it
                scopes = child.params.get("pool_scope", "").split()
                between = "swarm" if child.params.get("nets_gateway") == worker.params.get("nets_gateway") else "cluster"
                uses_w = cw == worker.id or (between in scopes and any(
                    worker.id + ":" in child.params.get(f"get_location_{o.long_suffix}", "")
                    for o in child.objects if objid(o) in removed))
                if not uses_w:
                    continue
                running = child.started_worker is not None and any(r["status"] == "UNKNOWN" for r in child.results)
                # default_clean_decision of a non-local worker only looks at workers of its own swarm
                cross = cw != worker.id and worker.swarm_id != "localhost" and worker.swarm_id not in (cw or "")
                if running:
                    self.monitor.append(("C05", "state removed while a dependant is running" + (" in another swarm" if cross else ""), w, ni))
                elif cw == worker.id and child.finished_worker is None and not child.results \
                        and worker.id not in member._dropped_cleanup_nodes.get_workers(child):
                    self.monitor.append(("C05", "state removed while a dependant is pending", w, ni))
                elif cw != worker.id and between in scopes and child.finished_worker is None and not child.results \
                        and cw in (member._picked_by_setup_nodes.get_workers() | member._picked_by_cleanup_nodes.get_workers()) \
                        and cw not in member._dropped_cleanup_nodes.get_workers(child):
                    # a dependant of another worker that already took part (picked the producer) is still to come: it
                    # must not lose its only copy of the state
                    left = [x for x in sts if x not in self.store.get(cw, set()) and x not in self.store.get(None, set())
                            and any(objid(o) == x[0] and o.object_typed_params(child.params).get("get_state") == x[1] for o in child.objects)]
                    producer_results = [r for m in [n] + list(n.bridged_nodes) for r in m.results]
                    only_w = left and all(r["status"] != "PASS" or worker.id in r["name"] for r in producer_results)
                    if left and only_w:
                        self.monitor.append(("C05", "state removed while a dependant of an involved worker is pending" +
                                             (" in another swarm" if cross else ""), w, ni))

    # -- observation wrappers
    def patches(self):
        from avocado_i2n.cartgraph import TestNode, TestGraph, TestWorker
        from avocado_i2n.plugins.runner import TestRunner
        run = self
        x = self.x
        orig = {k: getattr(TestNode, k) for k in ("pick_parent", "pick_child", "drop_parent", "drop_child",
                                                  "default_run_decision", "default_clean_decision")}

        def pick_parent(self, worker):
            r = orig["pick_parent"](self, worker)
            run.cur.append(("pick", x.widx[worker.id], x.ix(self), x.ix(r), False))
            return r

        def pick_child(self, worker):
            r = orig["pick_child"](self, worker)
            run.cur.append(("pick", x.widx[worker.id], x.ix(self), x.ix(r), True))
            return r

        def drop_parent(self, node, worker):
            run.cur.append(("dropp", x.widx[worker.id], x.ix(self), x.ix(node)))
            return orig["drop_parent"](self, node, worker)

        def drop_child(self, node, worker):
            ev = ("dropc", x.widx[worker.id], x.ix(node))
            if not run.cur or run.cur[-1] != ev:
                run.cur.append(ev)
            return orig["drop_child"](self, node, worker)

        def run_decision(self, worker):
            r = orig["default_run_decision"](self, worker)
            if id(self) in x.nidx or x.dynamic:
                run.cur.append(("decide", x.widx[worker.id], x.ix(self), bool(r)))
            return r

        def clean_decision(self, worker):
            r = orig["default_clean_decision"](self, worker)
            run.cur.append(("clean", x.widx[worker.id], x.ix(self), bool(r)))
            return r

        async def run_test_task(self, node):
            w = x.widx[node.started_worker.id]
            if x.dynamic:
                x.refresh()
                pre = node.params.get("type") == "shared_configure_install" and id(node) not in x.nidx
                real = node if not pre else next(nd for nd in x.g.nodes if nd.is_object_root() and nd.started_worker is node.started_worker)
            else:
                pre = id(node) not in x.nidx
                real = node if not pre else run.pre_of[id(node)]
            ni = x.ix(real)
            uid = node.id_test.uid
            base = "0" if pre else x.prefix0[ni]
            suffix = 0 if uid == base else (int(uid[len(base) + 1:]) if uid.startswith(base + "r") and uid[len(base) + 1:].isdigit() else 999)
            locs = []
            for o in real.objects:
                if o.key == "nets":
                    continue
                for loc in real.params.get(f"get_location_{o.long_suffix}", "").split():
                    wid, _ = loc.split(":")
                    locs.append((x.O(o), None if not wid else x.widx[wid]))
            run.cur.append(("start", w, ni, suffix, pre, sorted(locs, key=lambda t: (t[0], -1 if t[1] is None else t[1]))))
            run.monitor_start(w, real, pre)
            run.note_start(w, ni, pre)
            status = await Suspend(("run", node))
            run.note_end(w, ni, pre)
            if status != "PASS":
                run.attempted_failed.add(real.bridged_form)
            if status is not None:
                from avocado.core.test_id import TestID
                self.job.result.tests.append({"name": TestID(uid, node.params["name"]), "status": status, "time_elapsed": 1.0})
                if status == "PASS" and not pre:
                    for o in real.objects:
                        st = o.object_typed_params(real.params).get("set_state")
                        if st and o.key != "nets":
                            run.store.setdefault(real.started_worker.id, set()).add((objid(o), st))

        def parse_node_from_object(test_object, restriction="", prefix="", params=None):
            from avocado_i2n.cartgraph import TestNode as TN
            p = dict(params)
            n = TN(prefix, synth.Recipe(p))
            n._params_cache = Params(p)
            n.objects = [test_object]
            real = next(nd for nd in x.nodes if nd.params["name"] == params["name"])
            run.pre_of[id(n)] = real
            return n

        class PollAsyncio:
            @staticmethod
            async def sleep(t):
                await Suspend(("poll", t))

        class BounceAsyncio:
            @staticmethod
            async def sleep(t):
                await Suspend(("bounce", t))
        self.pre_of = {}
        # the policies are bound to each node at construction: re-bind the default ones to the recorders
        for n in ([] if x.dynamic else x.nodes):
            if getattr(n.should_run, "__func__", None) is orig["default_run_decision"]:
                n.should_run = functools.partial(run_decision, n)
            if getattr(n.should_clean, "__func__", None) is orig["default_clean_decision"]:
                n.should_clean = functools.partial(clean_decision, n)
        static_only = [] if x.dynamic else [mock.patch.object(TestGraph, "parse_node_from_object", staticmethod(parse_node_from_object))]
        return static_only + [
                mock.patch.object(TestNode, "pick_parent", pick_parent), mock.patch.object(TestNode, "pick_child", pick_child),
                mock.patch.object(TestNode, "drop_parent", drop_parent), mock.patch.object(TestNode, "drop_child", drop_child),
                mock.patch.object(TestNode, "default_run_decision", run_decision),
                mock.patch.object(TestNode, "default_clean_decision", clean_decision),
                mock.patch.object(TestRunner, "run_test_task", run_test_task),
                mock.patch.object(TestGraph, "report_progress", lambda self: None),
                mock.patch.object(TestWorker, "get_session", lambda self: Session(self)),
                mock.patch("avocado_i2n.cartgraph.node.door", self.door()),
                mock.patch("avocado_i2n.plugins.runner.asyncio", PollAsyncio),
                mock.patch("avocado_i2n.cartgraph.graph.asyncio", BounceAsyncio)]

    # -- C03/C04 bookkeeping
    def note_start(self, w, ni, pre):
        n = self.x.nodes[ni]
        key = n.bridged_form
        if pre or ("pre", key, w) not in getattr(self, "open_pre", set()):
            self.intervals.append([key, w, ni, self.t, None, pre])
        self.open_pre = getattr(self, "open_pre", set())
        if pre:
            self.open_pre.add(("pre", key, w))
        else:
            self.open_pre.discard(("pre", key, w))
            self.starts = getattr(self, "starts", [])
            self.starts.append((key, w, ni))

    def note_end(self, w, ni, pre):
        n = self.x.nodes[ni]
        for iv in reversed(self.intervals):
            if iv[0] == n.bridged_form and iv[1] == w and iv[4] is None:
                iv[4] = self.t
                iv[5] = pre
                break

    free_after_fixed = False     # replays: continue with any schedule once the recorded one no longer fits this tree
    fixed_terminated = True      # replays: whether the recorded run had ended
    deviated = False

    def go(self, rng, outcome_of, wake_bias=0.5, fixed=None, timed=False):
        """drive until every worker exited / failed or the section budget is used up"""
        from avocado_i2n.plugins.runner import TestRunner
        runner = TestRunner()
        runner.job = mock.MagicMock()
        runner.job.result.tests = []
        runner.previous_results = []
        self.g.runner = runner
        ps = self.patches()
        for p in ps:
            p.start()
        try:
            coros = [self.g.traverse_object_trees(w, self.params) for w in self.workers]
            self.mct_seen = [n.params.get("max_concurrent_tries") for n in self.x.nodes]
            state = ["ready"] * len(coros)      # ready | run | sleep | done
            pending = [None] * len(coros)
            # timed mode: a discrete-event simulation of the event loop - every test lasts less than its
            # test_timeout, every back-off exactly its period; the worker whose wake-up time is smallest goes next
            ready_at = [0.0] * len(coros)
            self.timed = timed
            self.clock = 0.0
            while any(s != "done" for s in state) and len(self.sections) < self.max_sections:
                alive = [i for i, s in enumerate(state) if s != "done"]
                runnable = [i for i in alive if state[i] != "sleep"] or alive
                # sleeping workers are woken with some probability, always when nobody else can move
                pool = runnable + [i for i in alive if state[i] == "sleep" and rng.random() < wake_bias]
                follow = fixed is not None and len(self.sections) < len(fixed) and state[fixed[len(self.sections)][0]] != "done"
                if fixed is not None and not follow:
                    used_up = len(self.sections) >= len(fixed) and not self.deviated
                    if not self.free_after_fixed or (used_up and not self.fixed_terminated):
                        break       # a replayed run that did not end: judged at the same length
                    self.deviated = True
                if follow:
                    w, fout = fixed[len(self.sections)]
                    out = None if fout in ("-", None) else fout
                else:
                    # no schedule given, or (free_after_fixed) the replayed schedule is used up or names a worker that has already
                    # left on this tree: any continuation will do
                    if timed:
                        tmin = min(ready_at[i] for i in alive)
                        w = rng.choice([i for i in alive if ready_at[i] <= tmin + 1e-9])
                        self.clock = ready_at[w]
                    else:
                        w = rng.choice(pool)
                    out = None
                    if state[w] == "run":
                        node = pending[w]
                        out = outcome_of(rng, self, w, node)
                self.sections.append((w, out if state[w] == "run" else "-"))
                self.cur = Section()
                self.t += 1
                send = out if state[w] == "run" else None
                while True:
                    try:
                        req = coros[w].send(send)
                    except StopIteration:
                        self.cur.append(("exit", w))
                        state[w] = "done"
                        break
                    except Exception as e:      # traversal errors end that worker
                        list.append(self.cur, ("fail", w, classify(e), repr(e)[:160]))
                        state[w] = "done"
                        break
                    if req[0] == "poll":        # the result polling of a never-reported test: same section
                        send = None
                        continue
                    if req[0] == "run":
                        state[w], pending[w] = "run", req[1]
                        limit = float(req[1].params.get("test_timeout", 100))
                        # the two steps of an object creation count as one execution: together below the time-out
                        share = 0.45 if req[1].params.get("object_root") or req[1].params.get("type") == "shared_configure_install" else 0.9
                        ready_at[w] = self.clock + rng.uniform(0.05, share) * limit
                    else:
                        ready_at[w] = self.clock + req[1]
                        state[w] = "sleep"
                        now = [n.params.get("max_concurrent_tries") for n in self.x.nodes]
                        self.cur.append(("bounce", w, int(round(req[1] * 100)), now != self.mct_seen))
                        self.mct_seen = now
                    break
                self.events.append(self.cur)
            self.terminated = all(s == "done" for s in state)
            self.result_tests = list(runner.job.result.tests)
        finally:
            for p in ps:
                p.stop()
            for c in coros:
                c.close()
        return self


class SectionOverrun(Exception):
    """raised from the recording hooks when one atomic section records more events than any terminating section could"""


class Section(list):
    LIMIT = 20000

    def append(self, ev):
        if len(self) >= self.LIMIT:
            raise SectionOverrun(f"more than {self.LIMIT} steps inside one atomic section without an await")
        list.append(self, ev)


def classify(e):
    s = str(e)
    if isinstance(e, SectionOverrun):
        return 7
    if "without remaining" in s:
        return 1
    if "Discontinuous" in s:
        return 2
    if "should not" in s:
        return 3
    if "Unfinished" in s:
        return 4
    if isinstance(e, ValueError):
        return 5
    return 9


# ----------------------------------------------------------------------------- terms
def event_term(x, ev, bumped=False):
    k = ev[0]
    if k == "pick":
        return f"EPick {cnat(ev[1])} {cnat(ev[2])} {cnat(ev[3])} {cbool(ev[4])}"
    if k == "decide":
        return f"EDecide {cnat(ev[1])} {cnat(ev[2])} {cbool(ev[3])}"
    if k == "scan":
        return f"EScan {cnat(ev[1])} {cnat(ev[2])} {cbool(ev[3])}"
    if k == "start":
        locs = clist([cpair(cN(o), "None" if l is None else copt(cnat(l))) for o, l in ev[5]])
        return f"EStart {cnat(ev[1])} {cnat(ev[2])} {cnat(ev[3])} {cbool(ev[4])} {locs}"
    if k == "dropp":
        return f"EDropParent {cnat(ev[1])} {cnat(ev[2])} {cnat(ev[3])}"
    if k == "dropc":
        return f"EDropChildren {cnat(ev[1])} {cnat(ev[2])}"
    if k == "clean":
        return f"EClean {cnat(ev[1])} {cnat(ev[2])} {cbool(ev[3])}"
    if k == "door":
        sts = clist([cpair(cN(x.intern(x.objs, o)), cN(x.S(s))) for o, s in ev[4]])
        return f"EDoor {cnat(ev[1])} {cnat(ev[2])} {cbool(ev[3])} {sts}"
    if k == "bounce":
        return f"EBounce {cnat(ev[1])} 0 {cZ(ev[2])} {cbool(ev[3])}"
    if k == "exit":
        return f"EExit {cnat(ev[1])}"
    if k == "fail":
        return f"EFail {cnat(ev[1])} {cN(ev[2])}"
    raise ValueError(ev)


def schedule_term(sections):
    return clist([cpair(cnat(w), "None" if out in (None, "-") else copt(STATUS_T[out])) for w, out in sections])
