"""./check Cxx [--tier quick|thorough] [--replay FILE]"""
import argparse
import importlib
import json
import os
import sys
import traceback

sys.path.insert(0, os.environ.get("VERIF_ROOT", "/verif"))
from harness import common  # noqa: E402


def main():
    ap = argparse.ArgumentParser()
    ap.add_argument("prop")
    ap.add_argument("--tier", default=os.environ.get("VERIF_TIER", "quick"), choices=["quick", "thorough"])
    ap.add_argument("--replay", default=None)
    ap.add_argument("--no-build", action="store_true", help="skip the Coq build (development only)")
    a = ap.parse_args()
    seed = int(os.environ.get("VERIF_SEED", "20260926"))
    ctx = common.Ctx(a.prop, a.tier, seed)
    os.environ["HOME"] = os.path.join(ctx.work, "home")
    os.chdir(ctx.work)
    import logging
    logging.disable(logging.CRITICAL)   # the code under test logs through avocado's loggers
    mod = importlib.import_module(f"harness.props.{a.prop.lower()}")
    replay = json.load(open(a.replay)) if a.replay else None
    try:
        if not a.no_build:
            common.build_property(ctx, getattr(mod, "REGENERATE", None), getattr(mod, "EXTRA_TARGETS", ()))
        mod.run(ctx, replay)
    except Exception as e:  # a crash of the machinery is never a pass
        traceback.print_exc()
        ctx.obligation("harness", "harness", False, repr(e))
        ctx.fail(f"{a.prop}:harness-error", f"the check itself failed: {e!r}",
                 {"obligation": "harness", "error": traceback.format_exc()[-2000:]}, False)
    sys.exit(common.finish(ctx))


if __name__ == "__main__":
    main()
