"""Generators for the traversal checks (C01-C05, C08): graph specs, initial pool populations,
outcome policies; and the routine that runs a batch of traversals and compares them with the model."""
from harness import trav
from harness.common import clist, cpair, coq_failing, coq_show
from harness import common

IMPORTS = "Model.Retry Model.Traverse Model.TraverseRun Check.Trav"
# (cases.v needs float literals: the prelude of the traversal cases imports PrimFloat)

WORKER_SETS = [
    [{"id": "net1"}],
    [{"id": "net1"}, {"id": "net2"}],
    [{"id": "net1"}, {"id": "net2"}, {"id": "net3"}],
    [{"id": "net1"}, {"id": "net2"}, {"id": "net3"}, {"id": "net4"}],
    [{"id": "cluster1.net6", "swarm": "cluster1", "spawner": "remote"}, {"id": "cluster1.net7", "swarm": "cluster1", "spawner": "remote"}],
    [{"id": "net1"}, {"id": "cluster1.net6", "swarm": "cluster1", "spawner": "remote"}],
    [{"id": "cluster1.net6", "swarm": "cluster1", "spawner": "remote"}, {"id": "cluster2.net6", "swarm": "cluster2", "spawner": "remote"},
     {"id": "cluster1.net7", "swarm": "cluster1", "spawner": "remote"}],
    [{"id": "net0", "spawner": "process"}],
    # remote slots of the default swarm (nets = net1 net2, slots = remote.com/1 remote.com/2): swarm id "localhost", spawner remote
    [{"id": "net1", "spawner": "remote"}, {"id": "net2", "spawner": "remote"}],
    [{"id": "net1", "spawner": "remote"}, {"id": "net2", "spawner": "remote"}, {"id": "cluster1.net6", "swarm": "cluster1", "spawner": "remote"}],
]
SCOPES = ["own swarm cluster shared"] * 5 + ["own shared", "own swarm shared", "own cluster shared", "own", "swarm cluster shared"]
STATE_NAMES = ["install", "customize", "on_customize", "connect", "gui", "extra"]


def gen_directed_handover(rng):
    """a tiny directed family: vm1 with install -> customize (marked for removal) [-> one more state]; the only test that
    needs the removable state belongs to ONE worker (and mostly needs a second vm too, so that its worker can arrive at
    the producer from below, through pick_parent, as well as from above); every worker carries the setup"""
    workers = rng.choice(WORKER_SETS[1:5])
    chain = [{"name": "install", "parent": None, "level": "images"},
             {"name": "customize", "parent": "install", "level": "images", "unset": rng.choice(["fi", "fi", "fa"])}]
    if rng.random() < 0.3:
        chain.append({"name": "on_customize", "parent": "customize", "level": rng.choice(["images", "vms"])})
    states = {"vm1": chain}
    owner = rng.randrange(len(workers))
    gets = {"vm1": chain[-1]["name"]}
    if rng.random() < 0.7:
        chain2 = [{"name": "install", "parent": None, "level": "images"}]
        if rng.random() < 0.5:
            chain2.append({"name": "customize", "parent": "install", "level": "images"})
        states["vm2"] = chain2
        gets["vm2"] = chain2[-1]["name"]
    leaves = [{"name": "t1", "gets": gets, "only_workers": [owner]}]
    if rng.random() < 0.5:
        leaves.append({"name": "t2", "gets": {"vm1": "install"}, "only_workers": [rng.randrange(len(workers))]})
    return {"workers": workers, "vms": {vm: {} for vm in states}, "states": states, "leaves": leaves,
            "node_params": {"test_timeout": rng.choice(["100", "10"]), "pool_scope": "own swarm cluster shared"}}


def gen_spec(rng, flavour=None):
    """flavour: None | 'retry' | 'removable' | 'contention' | 'handover' | 'directed' biases the parameters"""
    if flavour == "directed":
        return gen_directed_handover(rng)
    workers = rng.choice(WORKER_SETS if flavour not in ("contention", "handover") else WORKER_SETS[1:7] + WORKER_SETS[8:])
    nvms = rng.choice([1, 1, 2, 2, 3]) if flavour != "handover" else 1
    vms = {f"vm{k + 1}": {} for k in range(nvms)}
    states = {}
    for vm in vms:
        depth = rng.randint(1, 5 if flavour != "contention" else 3)
        chain = []
        for d in range(depth):
            parent = None if d == 0 else rng.choice(chain[max(0, d - 2):])["name"]
            st = {"name": STATE_NAMES[d], "parent": parent, "level": "images" if d == 0 or rng.random() < 0.6 else "vms"}
            if d > 0 and rng.random() < (0.5 if flavour == "removable" else 0.8 if flavour == "handover" else 0.12):
                st["unset"] = rng.choice(["fi", "fi", "fa", "ri"])
                if rng.random() < 0.4:
                    st["unset_spelling"] = "untyped"
            if rng.random() < 0.15:
                st["params"] = {"max_tries": rng.choice(["2", "3"])}
            chain.append(st)
        states[vm] = chain
    leaves = []
    for k in range(rng.randint(1, 5)):
        used = rng.sample(sorted(vms), rng.randint(1, min(2, nvms)))
        leaf = {"name": f"t{k + 1}", "gets": {vm: rng.choice(states[vm])["name"] for vm in used}}
        if rng.random() < 0.2:
            leaf["params"] = {"max_tries": rng.choice(["2", "3"]), "rerun_status": rng.choice(["fail", "fail error", "error"])}
        leaves.append(leaf)
    if flavour == "handover" and len(workers) > 1:
        # one worker produces a removable state that only another worker's test needs
        for leaf in leaves:
            leaf["only_workers"] = [rng.randrange(len(workers))]
    elif len(workers) > 1 and rng.random() < 0.3:
        # tests excluded for some workers (restricted workers): a worker may be done with a setup others still need
        for leaf in leaves:
            if rng.random() < 0.5:
                leaf["only_workers"] = sorted(rng.sample(range(len(workers)), rng.randint(1, len(workers) - 1)))
    node_params = {"test_timeout": rng.choice(["100", "100", "10", "250", "3600"]), "pool_scope": rng.choice(SCOPES)}      # 3600: the package default
    if flavour == "retry" or rng.random() < 0.25:
        node_params["max_tries"] = rng.choice(["2", "3", "4", "2", "3", "0"])      # 0 is accepted by the code: no retries
        if rng.random() < 0.5:
            node_params["max_concurrent_tries"] = rng.choice(["1", "2", "3"])
        if rng.random() < 0.3:
            node_params["stop_status"] = rng.choice(["pass", "error", "fail"])
        if rng.random() < 0.3:
            node_params["rerun_status"] = rng.choice(["fail", "fail error", "fail error pass unknown"])
    if flavour in ("removable", "handover") and rng.random() < 0.3:
        # a removal request spelled per object type for the whole run: it marks the states of that type only
        node_params[rng.choice(["unset_mode_vms", "unset_mode_images"])] = rng.choice(["fi", "fa"])
    if rng.random() < 0.05:
        node_params["dry_run"] = "yes"
    if rng.random() < 0.1:
        node_params["pool_filter"] = rng.choice(["reuse", "block", "copy"]) if "own" in node_params["pool_scope"].split() else "block"
    return {"workers": workers, "vms": vms, "states": states, "leaves": leaves, "node_params": node_params}


def gen_store(rng, spec, g):
    """initial population of the pools: prefix-closed runs of states in the shared pool, residue of an
    interrupted run in some workers' own pools"""
    store = {}
    kind = rng.choice(["empty", "empty", "shared", "shared", "residue", "mixed", "full"])
    if kind == "empty":
        return store

    def chain_states(vm, upto):
        out = []
        for st in spec["states"][vm][:upto]:
            key = f"images:image1_{vm}" if st.get("level", "images") == "images" else f"vms:{vm}"
            out.append((key, st["name"]))
        return out
    for vm in spec["vms"]:
        n = len(spec["states"][vm])
        if kind in ("shared", "mixed", "full"):
            upto = n if kind == "full" else rng.randint(0, n)
            sts = chain_states(vm, upto)
            if kind == "mixed" and sts and rng.random() < 0.5:
                sts = rng.sample(sts, rng.randint(0, len(sts)))       # holes: e.g. after a cleanup
            store.setdefault(None, set()).update(sts)
        if kind in ("residue", "mixed"):
            for w in spec["workers"]:
                if rng.random() < 0.5:
                    store.setdefault(w["id"], set()).update(chain_states(vm, rng.randint(0, n)))
    return store


def outcome_policy(rng, spec):
    """which executions fail: per logical test a list of statuses for its successive executions"""
    plan = {}
    mode = rng.choice(["allpass", "allpass", "some", "some", "flaky", "never"])

    def outcome(r, run, w, node):
        name = node.params["name"]
        key = name.split(".vms.")[0] if ".vms." in name else name
        if node.prefix.startswith("0"):
            key = "pre:" + key
        if mode == "allpass":
            return "PASS"
        seq = plan.setdefault(key, [r.choice(["PASS"] * (5 if mode != "flaky" else 2) + ["FAIL", "ERROR"] +
                                             (["WARN", "SKIP", "INTERRUPTED", "CANCEL"] if mode == "flaky" else []) +
                                             ([None] if mode == "never" else []))
                                    for _ in range(6)])
        k = plan.setdefault(("count", key), 0)
        plan[("count", key)] = k + 1
        return seq[min(k, len(seq) - 1)]
    return outcome


def one_case(rng, flavour=None, max_sections=2500, fixed=None, timed=False):
    """fixed = (spec, initial pools, schedule) replays a stored case exactly"""
    spec = fixed[0] if fixed else gen_spec(rng, flavour)
    if timed and not fixed:
        # short time-outs keep the number of back-off periods per test small
        spec["node_params"]["test_timeout"] = rng.choice(["1", "2", "3"])
        for sts in spec["states"].values():
            for st in sts:
                if rng.random() < 0.3:
                    st.setdefault("params", {})["test_timeout"] = rng.choice(["1", "2", "4"])
    g, workers, root = trav.build_graph(spec)
    x = trav.Export(g, workers)
    if fixed:
        store = {(None if k == "None" else k): {tuple(t) for t in v} for k, v in fixed[1].items()}
    else:
        store = gen_store(rng, spec, g)
    graph_t = x.graph_term()
    store_t = x.store_term(store)
    run = trav.Run(g, workers, x, store, None, max_sections=max_sections)
    # a replayed schedule may not fit the tree it is replayed on (a worker leaves earlier): continue with any schedule then
    run.free_after_fixed = bool(fixed)
    run.fixed_terminated = bool(fixed[3]) if fixed and len(fixed) > 3 else True
    run.go(rng, outcome_policy(rng, spec), wake_bias=rng.choice([0.2, 0.5, 0.9]),
           fixed=[tuple(s) for s in fixed[2]] if fixed else None, timed=timed)
    run_timed = timed
    # (a section cut off by the watchdog is compared on its first events only: the model cannot follow it anyway)
    events_t = clist([clist([trav.event_term(x, e) for e in (evs if len(evs) < 5000 else evs[:100] + evs[-1:])]) for evs in run.events])
    term = cpair(graph_t, store_t, trav.schedule_term(run.sections), events_t)
    return {"spec": spec, "store": {str(k): sorted(v) for k, v in store.items()}, "run": run, "term": term, "x": x, "timed": timed}


def outcome_never_heavy(rng, spec):
    """outcome assignment in which many executions never report (for the search after a broken correspondence)"""
    plan = {}

    def outcome(r, run, w, node):
        name = node.params["name"]
        key = name.split(".vms.")[0] if ".vms." in name else name
        seq = plan.setdefault(key, [r.choice(["PASS", "PASS", None, None, None, "FAIL"]) for _ in range(4)])
        k = plan.setdefault(("count", key), 0)
        plan[("count", key)] = k + 1
        return seq[min(k, len(seq) - 1)]
    return outcome


def search_around(rng, case, n, max_sections=1500):
    """the implementation alone on the graph and pools of `case` and on close variants of that graph (same states and tests:
    all workers in one local swarm with every pool scope enabled; the worker restrictions of the tests dropped; other worker
    sets, among them two and three workers of remote swarms) under n fresh schedules / outcome assignments (untimed, timed, many never-reported results): the search for a failing
    input once the correspondence broke on that graph. Yields cases without a Coq term (the model is not consulted)."""
    import copy
    for k in range(n):
        spec = copy.deepcopy(case["spec"])
        variant = k % 6
        if variant == 1:
            spec["workers"] = copy.deepcopy(WORKER_SETS[min(len(spec["workers"]), 4) - 1])
            spec["node_params"]["pool_scope"] = "own swarm cluster shared"
            for leaf in spec["leaves"]:
                if "only_workers" in leaf:
                    leaf["only_workers"] = [i for i in leaf["only_workers"] if i < len(spec["workers"])] or [0]
        elif variant == 2:
            for leaf in spec["leaves"]:
                leaf.pop("only_workers", None)
        elif variant >= 3:
            spec["workers"] = copy.deepcopy(rng.choice(WORKER_SETS[1:7]) if variant == 3 else WORKER_SETS[4] if variant == 4 else WORKER_SETS[6])
            if variant > 3:
                spec["node_params"]["pool_scope"] = "own swarm cluster shared"
            for leaf in spec["leaves"]:
                leaf.pop("only_workers", None)
        timed = (k % 3 == 2)
        if timed and not (spec["node_params"].get("test_timeout") == "3600" and k % 2 == 0):
            # as in one_case: short time-outs keep the number of back-off periods per test small (but the package default of
            # 3600 s, whose back-off period exceeds a second, is kept every other time)
            spec["node_params"]["test_timeout"] = rng.choice(["1", "2", "3"])
            for sts in spec["states"].values():
                for st in sts:
                    if "test_timeout" in st.get("params", {}):
                        st["params"]["test_timeout"] = rng.choice(["1", "2", "4"])
        g, workers, root = trav.build_graph(spec)
        x = trav.Export(g, workers)
        store = {} if variant else {(None if kk == "None" else kk): {tuple(t) for t in v} for kk, v in case["store"].items()}
        run = trav.Run(g, workers, x, store, None, max_sections=max_sections)
        policy = outcome_never_heavy(rng, spec) if k % 5 == 4 else outcome_policy(rng, spec)
        run.go(rng, policy, wake_bias=rng.choice([0.2, 0.5, 0.9]), timed=timed)
        yield {"spec": spec, "store": {str(kk): sorted(v) for kk, v in store.items()}, "run": run, "term": None, "x": x, "timed": timed, "agrees": True}


def run_batch(ctx, n, flavours, tag, max_sections=2500, fixed=None, timed_share=0.0):
    """runs n traversals; returns the cases with 'diff' (index of the first differing section or None)"""
    cases = []
    if fixed:
        cases.append(one_case(ctx.rng, None, max_sections, fixed))
    for k in range(n):
        cases.append(one_case(ctx.rng, flavours[k % len(flavours)], max_sections, timed=(ctx.rng.random() < timed_share)))
    res = coq_failing(ctx, IMPORTS, "trav_case", [c["term"] for c in cases], ["trav_corr"], shard=max(1, len(cases) // 16 + 1), tag=tag,
                      timeout=900)
    bad = set(res["trav_corr"])
    for k, c in enumerate(cases):
        c["agrees"] = k not in bad
    return cases


def describe_diff(ctx, c):
    out = coq_show(ctx, IMPORTS, [f"trav_diff ({c['term']})",
                                  f"match trav_diff ({c['term']}) with Some k => trav_section ({c['term']}) k | None => [] end"],
                   tag="diff")
    return out[-3000:]


def replay_data(c):
    run = c["run"]
    return {"spec": c["spec"], "initial_pools": c["store"], "schedule": [[w, o] for w, o in run.sections],
            "impl_events_tail": [[list(map(str, e)) for e in evs] for evs in run.events[-6:]],
            "monitor": [list(map(str, m)) for m in run.monitor[:10]], "terminated": run.terminated}
