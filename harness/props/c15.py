"""C15 - intertest_setup.update run for real (selftests' job seam) for (from_state, to_state) pairs along a vm's
chain of states; the tests it runs and the states it removes are compared with Model/Tools.v evaluated on a
state graph parsed independently of the tool."""
import concurrent.futures
import os

from harness.common import cN, clist, cpair, coq_failing, Interner
from harness import toolseam

IMPORTS = "Model.Tools Check.C15"
VMS = {"vm1": "only CentOS\n", "vm2": "only Win10\n", "vm3": "only Ubuntu\n"}


def state_graph(vm):
    """states of the vm and what is derived from what, from a separate parse of the setup tests"""
    from avocado_i2n.cartgraph import TestGraph
    from avocado_i2n import params_parser as param
    ws = TestGraph.parse_workers({"nets": "net1"})
    g = TestGraph.parse_object_trees(worker=ws[0], restriction=param.re_str("leaves"), object_restrs=VMS,
                                     params={"vms": vm, "main_vm": vm, "nets": "net1"}, with_shared_root=False)
    label = {}
    for n in g.nodes:
        sts = [o.object_typed_params(n.params).get("set_state") for o in n.objects if o.key != "nets"]
        sts = [s for s in sts if s]
        label[id(n)] = sts[0] if sts else "leaf:" + n.params["name"].split(".vms.")[0]
    dag = {}
    parent = {}
    for n in g.nodes:
        if label[id(n)].startswith("leaf:"):
            continue            # a test that saves no state has nothing to be removed
        dag.setdefault(label[id(n)], [])
        for c in n.cleanup_nodes:
            if label[id(c)].startswith("leaf:"):
                continue
            if label[id(c)] not in dag[label[id(n)]]:
                dag[label[id(n)]].append(label[id(c)])
            parent[label[id(c)]] = label[id(n)]
    return dag, parent


def run_update(args):
    vm, fr, to, nets, seed = args[:5]
    more = args[5] if len(args) > 5 else {}
    import logging
    import random
    logging.disable(logging.CRITICAL)
    os.environ["HOME"] = os.path.join(os.environ.get("VERIF_WORK", "/tmp"), f"home-{os.getpid()}")
    os.makedirs(os.environ["HOME"], exist_ok=True)
    os.chdir(os.environ["HOME"])
    from avocado_i2n import intertest_setup
    config = toolseam.base_config({vm: VMS[vm]}, nets, vms_params=dict({f"from_state_{vm}": fr, f"to_state_{vm}": to}, **more))
    with toolseam.Recorder(random.Random(seed)) as rec:
        try:
            intertest_setup.update(config, tag="1r")
            err = None
        except Exception as e:
            err = type(e).__name__
    ran, removed, others = [], [], []
    for c in rec.calls:
        if c[0] == "run":
            p = c[3]
            if p.get("type") == "shared_configure_install":
                continue       # the creation pre-step accompanies install
            if p.get("vms") != vm:
                others.append(("run", p.get("vms"), c[2]))
            sts = [v for k, v in p.items() if k.startswith("set_state") and not k.endswith("on_error") and v and v != "root"]
            ran.append((c[1], sts[0] if sts else "leaf:" + c[2].split(".vms.")[0]))
        elif c[0] == "door" and c[1] == "unset":
            for k, v in c[3].items():
                if k.startswith("unset_state"):
                    if not k.endswith("_" + vm):
                        others.append(("unset", k, v))
                    removed.append(v)
    return {"err": err, "ran": ran, "removed": removed, "others": others}


def run_update_multi(args):
    """several vms updated in one call by several workers: how often was every setup test executed overall"""
    vms, nets, seed = args
    import collections
    import logging
    import random
    logging.disable(logging.CRITICAL)
    os.environ["HOME"] = os.path.join(os.environ.get("VERIF_WORK", "/tmp"), f"home-{os.getpid()}")
    os.makedirs(os.environ["HOME"], exist_ok=True)
    os.chdir(os.environ["HOME"])
    from avocado_i2n import intertest_setup
    config = toolseam.base_config({vm: VMS[vm] for vm in vms}, nets)
    with toolseam.Recorder(random.Random(seed)) as rec:
        try:
            intertest_setup.update(config, tag="1r")
            err = None
        except Exception as e:
            err = type(e).__name__
    ran = collections.Counter()
    for c in rec.calls:
        if c[0] == "run":
            p = c[3]
            if p.get("type") == "shared_configure_install":
                continue
            sts = [v for k, v in p.items() if k.startswith("set_state") and not k.endswith("on_error") and v and v != "root"]
            ran[(p.get("vms"), sts[0] if sts else "leaf:" + c[2].split(".vms.")[0])] += 1
    return {"err": err, "ran": sorted([list(k) + [v] for k, v in ran.items()]), "workers_used": sorted({c[1] for c in rec.calls if c[0] == "run"})}


def run_update_variants(args):
    """vm1 selected without a variant restriction (CentOS and Fedora): what was executed for each variant"""
    fr, to, nets, seed = args
    import collections
    import logging
    import random
    logging.disable(logging.CRITICAL)
    os.environ["HOME"] = os.path.join(os.environ.get("VERIF_WORK", "/tmp"), f"home-{os.getpid()}")
    os.makedirs(os.environ["HOME"], exist_ok=True)
    os.chdir(os.environ["HOME"])
    from avocado_i2n import intertest_setup
    config = toolseam.base_config({"vm1": ""}, nets, vms_params={"from_state_vm1": fr, "to_state_vm1": to})
    config["available_vms"]["vm1"] = ""
    with toolseam.Recorder(random.Random(seed)) as rec:
        try:
            intertest_setup.update(config, tag="1r")
            err = None
        except Exception as e:
            err = type(e).__name__ + ": " + str(e)[:160]
    ran = collections.Counter()
    for c in rec.calls:
        if c[0] == "run":
            p = c[3]
            if p.get("type") == "shared_configure_install":
                continue
            variant = next((v for v in ("CentOS", "Fedora") if f".{v}." in c[2]), "?")
            sts = [v for k, v in p.items() if k.startswith("set_state") and not k.endswith("on_error") and v and v != "root"]
            ran[(variant, sts[0] if sts else "leaf:" + c[2].split(".vms.")[0])] += 1
    return {"err": err, "ran": sorted([list(k) + [v] for k, v in ran.items()])}


def variants_part(ctx, replay, path_to):
    """every variant of a vm selected without restriction gets exactly the requested path, once across the workers"""
    rng = ctx.rng
    if replay and "variants" in replay["data"]:
        d = replay["data"]["variants"]
        todo = [(d[0], d[1], d[2], replay["data"].get("seed", 1))]
    elif replay:
        return
    else:
        combos = [(fr, to, nets) for fr, to in (("customize", "linux_virtuser"), ("customize", "customize"), ("install", "customize"),
                                                ("customize", "on_customize"), ("on_customize", "on_customize"))
                  for nets in ("net1", "net1 net2")]
        rng.shuffle(combos)
        todo = [(fr, to, nets, rng.randrange(10 ** 6)) for fr, to, nets in combos[: (len(combos) if ctx.thorough else 3)]]
    with concurrent.futures.ProcessPoolExecutor(max_workers=10) as ex:
        outs = list(ex.map(run_update_variants, todo))
    bad = []
    for (fr, to, nets, seed), o in zip(todo, outs):
        p = path_to(to)
        seg = p[p.index(fr):] if fr in p else None
        expect = sorted([v, st, 1] for v in ("CentOS", "Fedora") for st in (seg or []))
        if o["err"] or seg is None or o["ran"] != expect:
            bad.append(((fr, to, nets, seed), o, expect))
    ctx.obligation("monitor:every-variant-gets-the-path-once", "monitor", not bad,
                   f"{len(bad)} of {len(todo)} updates of an unrestricted vm1 (CentOS + Fedora) did not execute exactly the path once per variant")
    for (fr, to, nets, seed), o, expect in bad[:1]:
        ctx.fail("C15:update:variant-path", f"update of vm1 (all variants) from {fr} to {to} on {nets}: executions {o['ran']} instead of {expect}",
                 {"variants": [fr, to, nets], "seed": seed, "impl": o, "expected": expect}, True)
    ctx.count(len(todo), len(todo))
    ctx.coverage["multi_variant_updates"] = [{"from": t[0], "to": t[1], "nets": t[2]} for t in todo]


def multi_part(ctx, replay):
    rng = ctx.rng
    if replay and "multi" in replay["data"]:
        todo = [(replay["data"]["multi"][0], replay["data"]["multi"][1], replay["data"].get("seed", 1))]
    elif replay:
        return
    else:
        combos = [(vms, nets) for vms in (["vm1", "vm2"], ["vm1", "vm2", "vm3"], ["vm2", "vm3"], ["vm1", "vm3"])
                  for nets in ("net1 net2 net3", "net1 net2 net3 net4", "net1 net2", "cluster1.net6 cluster1.net7 cluster2.net6")]
        rng.shuffle(combos)
        todo = [(vms, nets, rng.randrange(10 ** 6)) for vms, nets in combos[: (len(combos) if ctx.thorough else 5)]]
        if ctx.thorough:
            todo += [(vms, nets, rng.randrange(10 ** 6)) for vms, nets in combos]
    with concurrent.futures.ProcessPoolExecutor(max_workers=12) as ex:
        outs = list(ex.map(run_update_multi, todo))
    bad = []
    for (vms, nets, seed), o in zip(todo, outs):
        # default update: from install to customize of every selected vm, shared by all workers
        expect = sorted([vm, st, 1] for vm in vms for st in ("install", "customize"))
        if o["err"] or o["ran"] != expect:
            bad.append(((vms, nets, seed), o, expect))
    ctx.obligation("monitor:path-tests-executed-once-across-workers", "monitor", not bad,
                   f"{len(bad)} of {len(todo)} multi-vm updates executed a path test more than once, not at all, or a test outside the path")
    for (vms, nets, seed), o, expect in bad[:1]:
        ctx.fail("C15:update:path-test-repeated-or-missing", f"update of {vms} on {nets}: executions {o['ran']} instead of once each of {expect}",
                 {"multi": [vms, nets], "seed": seed, "impl": o, "expected": expect}, True)
    ctx.count(len(todo), sum(1 for t in todo if len(t[1].split()) > 2))
    ctx.coverage["multi_vm_updates"] = [{"vms": t[0], "nets": t[1], "workers_used": o["workers_used"]} for t, o in zip(todo, outs)]


def remove_set_part(ctx, replay):
    """'all remove_set values': the set of tests whose states an update removes may be given for all vms (remove_set) or for one
    vm (remove_set_<vm>); for an update of that vm alone both spellings mean the same, and a smaller set removes no more"""
    if replay and "remove_set" not in replay["data"]:
        return
    rng = ctx.rng
    sets = [replay["data"]["remove_set"]] if replay else (["minimal", "normal"] if ctx.thorough else ["minimal"])
    jobs = []
    for rs in sets:
        for extra in ({}, {"remove_set": rs}, {"remove_set_vm1": rs}):
            jobs.append(("vm1", "install", "customize", "net1", 5, extra))
    with concurrent.futures.ProcessPoolExecutor(max_workers=6) as ex:
        outs = list(ex.map(run_update, jobs))
    bad = []
    for k, rs in enumerate(sets):
        dflt, generic, pervm = outs[3 * k: 3 * k + 3]
        if generic["err"] or pervm["err"] or sorted(set(generic["removed"])) != sorted(set(pervm["removed"])) or sorted(generic["ran"]) != sorted(pervm["ran"]):
            bad.append({"remove_set": rs, "generic": generic, "per_vm": pervm, "default": dflt})
    ctx.obligation("monitor:remove_set-spelling-independent", "monitor", not bad,
                   f"{len(bad)} of {len(sets)} remove sets act differently when given for vm1 only (remove_set_vm1) than when given for all vms")
    for b in bad[:1]:
        ctx.fail("C15:per-vm-remove-set-differs", f"update of vm1 with remove_set_vm1={b['remove_set']} removed {sorted(set(b['per_vm']['removed']))}, "
                 f"with remove_set={b['remove_set']} {sorted(set(b['generic']['removed']))} (default set: {sorted(set(b['default']['removed']))})", b, True)
    ctx.count(len(jobs), len(sets))
    ctx.coverage["remove_sets"] = [{"set": rs, "removed": sorted(set(outs[3 * k + 1]["removed"])), "default_removed": sorted(set(outs[3 * k]["removed"]))} for k, rs in enumerate(sets)]


def run(ctx, replay=None):
    os.environ["VERIF_WORK"] = ctx.work
    remove_set_part(ctx, replay)
    if replay and "remove_set" in replay["data"]:
        return
    multi_part(ctx, replay)
    if replay and "multi" in replay["data"]:
        return
    rng = ctx.rng
    os.environ["VERIF_WORK"] = ctx.work
    if replay and replay["data"].get("vm"):
        vm_list = [(replay["data"]["vm"], 14)]
    else:
        vm_list = [("vm1", 10), ("vm3", 5), ("vm2", 4)]
    for vm, quick_n in vm_list:
        dag, parent = state_graph(vm)

        def path_to(st):
            out = [st]
            while out[0] in parent:
                out.insert(0, parent[out[0]])
            return out
        if vm == "vm1":
            variants_part(ctx, replay, path_to)
            if replay and "variants" in replay["data"]:
                return
        states = [s for s in dag if not s.startswith("leaf:")]
        if vm == "vm1":
            base_states = list(states)
        else:
            # the tool's domain is the setup chain of one vm: for the other vms only the states vm1 has as well (the
            # further states of vm2 are saved by tests that need several vms)
            states = [s for s in states if s in base_states]
            dag = {k: [c for c in v if c in base_states] for k, v in dag.items() if k in base_states}
            parent = {c: p_ for c, p_ in parent.items() if c in base_states and p_ in base_states}
        pairs = []
        for to in states:
            p = path_to(to)
            for fr in p:
                pairs.append((fr, to))
        if replay and "from" in replay["data"]:
            todo = [(vm, replay["data"]["from"], replay["data"]["to"], replay["data"]["nets"], 1)]
        else:
            netsets = ["net1", "net1 net2"] + (["cluster1.net6 cluster1.net7", "net1 net2 net3"] if ctx.thorough else [])
            todo = [(vm, fr, to, nets, rng.randrange(10 ** 6)) for fr, to in pairs for nets in netsets]
            if not ctx.thorough:
                rng.shuffle(todo)
                todo = todo[:quick_n]
            todo += [(vm, "bogus", "customize", "net1", 1), (vm, "install", "nosuchstate", "net1", 2)]
            # states that exist in the suite but not in this vm's graph (another vm's or another OS's setup): as unknown to
            # this vm as a made-up name, and accepted by the parser
            foreign = sorted({s for other in ("vm1", "vm2", "vm3") if other != vm for s in state_graph(other)[0]
                              if not s.startswith("leaf:") and s not in dag})
            for fs in (foreign if ctx.thorough else rng.sample(foreign, min(2, len(foreign)))):
                todo.append((vm, fs, rng.choice([s for s in states if s != "install"] or states), rng.choice(["net1", "net1 net2"]), 3))
        with concurrent.futures.ProcessPoolExecutor(max_workers=12) as ex:
            outs = list(ex.map(run_update, todo))
        I = Interner()
        dag_t = clist([cpair(cN(I(k)), clist([cN(I(c)) for c in v])) for k, v in dag.items()])
        terms, idx = [], []
        rejected_ok = True
        for k, (args, o) in enumerate(zip(todo, outs)):
            _, fr, to, nets, _ = args
            if fr not in dag or to not in dag:
                if o["err"] is None:
                    rejected_ok = False
                    ctx.fail("C15:unknown-state-accepted", f"update from {fr} to {to} was not rejected",
                             {"vm": vm, "from": fr, "to": to, "nets": nets, "impl": o}, True)
                continue
            nworkers = len(nets.split())
            # every worker runs / removes the same set; compare per worker through the union and the counts
            ran = sorted({s for w, s in o["ran"]})
            if vm != "vm1":
                o = dict(o, removed=[x for x in o["removed"] if x in base_states])
            terms.append(cpair(dag_t, clist([cN(I(s)) for s in path_to(to)]), cN(I(fr)), cN(I(to)),
                               cpair(clist([cN(I(s)) for s in ran]), clist([cN(I(s)) for s in sorted(set(o["removed"]))]))))
            idx.append(k)
        ctx.obligation(f"monitor:unknown-states-rejected:{vm}", "monitor", rejected_ok, "")
        if terms:
            res = coq_failing(ctx, IMPORTS, "upd_case", terms, ["upd_corr", "upd_monitor"], shard=50, tag="upd")
            other = [k for k in idx if outs[k]["others"] or outs[k]["err"]]
            ctx.obligation(f"correspondence:update-runs-and-removals:{vm}", "correspondence", not res["upd_corr"] and not other,
                           f"{len(res['upd_corr'])} of {len(terms)} updates differ from Model/Tools.v; {len(other)} touched another vm or failed")
            mon = set(res["upd_monitor"])
            for j in sorted(set(res["upd_corr"]) | mon)[:2]:
                k = idx[j]
                ctx.fail("C15:update:" + ("path-or-dependants" if j in mon else "correspondence"),
                         "update: " + ("ran a test outside the requested path, removed a state that is not derived from to_state, or left a path test / a derived state out" if j in mon
                                       else "runs / removals differ from the model's"),
                         {"vm": vm, "from": todo[k][1], "to": todo[k][2], "nets": todo[k][3], "impl": outs[k], "expected_path": path_to(todo[k][2]),
                          "obligation": f"correspondence:update-runs-and-removals:{vm}"}, j in mon)
            for k in other[:1]:
                ctx.fail("C15:update:other-vm-or-error", "update touched another vm's tests/states or raised",
                         {"vm": vm, "from": todo[k][1], "to": todo[k][2], "nets": todo[k][3], "impl": outs[k]}, True)
            ctx.count(len(todo), sum(1 for a in todo if a[1] != a[2] and a[1] in dag and a[2] in dag))
            ctx.coverage["exhaustive"] = bool(ctx.thorough)
            ctx.sample({"from": todo[idx[0]][1], "to": todo[idx[0]][2], "nets": todo[idx[0]][3], "impl": outs[idx[0]]})
    ctx.coverage["state_graph_last_vm"] = dag
    ctx.coverage["rule"] = (f"vm1 (CentOS) of the shipped suite: states {states}; every (from_state, to_state) with from_state on the path from creation to to_state "
                            f"({len(pairs)} pairs) x worker sets (1-2 lxc workers; thorough: also 3 lxc and 2 remote) - thorough enumerates all, quick takes a "
                            "seed-rotated slice of 14 - plus two unknown states; the real intertest_setup.update under the selftests' job seam with "
                            "randomly delayed stub tests; expected sets computed by Model/Tools.v on a state graph parsed separately. Non-trivial: from != to.")
    ctx.explanation.append(
        "Theorems in Props/C15.v: flag_children reaches exactly the nodes connected through child edges (with and without the start); on a chain of "
        "states update_runs is exactly the segment from from_state to to_state and update_unsets exactly what follows to_state. The real tool is "
        "compared with these functions. PARTIAL: the state graph handed to the model comes from the real parser (subject of C06/C07).")
    ctx.assumptions += ["the selftests' job seam", "the state graph of the vm is read from a separate parse_object_trees call"]
