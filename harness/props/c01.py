"""C01 - see trav_props.py (traversal model, correspondence on hand-driven coroutines, monitors)."""
from harness.props import trav_props

EXTRA_TARGETS = ["Check/Trav.vo", "Check/Scan.vo"]


def run(ctx, replay=None):
    trav_props.run_property(ctx, "C01", replay)
