"""C12 — states/setup.py check/get/set/unset/push/pop_states against Model/StateOps.v
(an in-memory backend registered in BACKENDS records every call and holds the store)."""
import itertools

from harness.common import cN, cbool, clist, cpair, copt, coq_failing, Interner

IMPORTS = "Model.StateOps Model.StateSpec Check.C12"
ROOT_WORDS = ["root", "0root", "boot", "0boot"]      # the harness's own copy of the documented keywords
LETTERS = "arifx"
OPS = ["check", "get", "set", "unset", "push", "pop"]
OPK = {"check": "OCheck", "get": "OGet", "set": "OSet", "unset": "OUnset", "push": "OPush", "pop": "OPop"}
LET = {"a": "La", "r": "Lr", "i": "Li", "f": "Lf"}
TYP = {1: "TNet", 2: "TVm", 3: "TImage"}
FULLTYPE = {1: "nets", 2: "nets/vms", 3: "nets/vms/images"}
SHORTTYPE = {1: "nets", 2: "vms", 3: "images"}


def letter(c):
    return LET.get(c, "Lx")


def mode_term(m):
    return cpair(letter(m[0]), letter(m[1]))


# ----------------------------------------------------------------------------- implementation side
class Store:
    def __init__(self):
        self.data = {}      # key tuple -> [root, [names]]
        self.log = []

    def entry(self, key):
        return self.data.setdefault(key, [False, []])


STORE = Store()


def _key(params):
    level = params["object_type"].split("/")[-1]
    if level == "nets":
        return (params["nets"],)
    if level == "vms":
        return (params["nets"], params["vms"])
    return (params["nets"], params["vms"], params["images"])


def make_backends():
    from avocado_i2n.states import setup as ss
    from avocado_i2n.states import pool

    class Methods:
        @classmethod
        def show(cls, params, object=None):
            STORE.log.append(("show", _key(params)))
            return list(STORE.entry(_key(params))[1])

        @classmethod
        def get(cls, params, object=None):
            STORE.log.append(("get", _key(params), params["get_state"]))

        @classmethod
        def set(cls, params, object=None):
            STORE.log.append(("set", _key(params), params["set_state"]))
            e = STORE.entry(_key(params))
            if params["set_state"] not in e[1]:
                e[1].append(params["set_state"])

        @classmethod
        def unset(cls, params, object=None):
            STORE.log.append(("unset", _key(params), params["unset_state"]))
            e = STORE.entry(_key(params))
            e[1] = [x for x in e[1] if x != params["unset_state"]]

        @classmethod
        def check_root(cls, params, object=None):
            STORE.log.append(("check_root", _key(params)))
            return STORE.entry(_key(params))[0]

        @classmethod
        def get_root(cls, params, object=None):
            STORE.log.append(("get_root", _key(params)))

        @classmethod
        def set_root(cls, params, object=None):
            STORE.log.append(("set_root", _key(params), params.get("pool_scope") == "own"))
            STORE.entry(_key(params))[0] = True

        @classmethod
        def unset_root(cls, params, object=None):
            STORE.log.append(("unset_root", _key(params)))
            STORE.data[_key(params)] = [False, []]

    mem = type("MemBackend", (Methods, ss.StateBackend), {})
    memsrc = type("MemSourcedBackend", (Methods, pool.SourcedStateBackend), {})
    return mem, memsrc


class FakeVM:
    def __init__(self, key):
        self.key = key

    def destroy(self, gracefully=True):
        STORE.log.append(("destroy", self.key))


class FakeEnv:
    def get_vm(self, name):
        return FakeVM(("net1", name))


def topology(vms):
    """objects in the order _parametric_object_iteration yields them: [(key tuple, level)]"""
    out = []
    for vm, images in vms:
        for img in images:
            out.append((("net1", vm, img), 3))
        out.append((("net1", vm), 2))
    out.append((("net1",), 1))
    return out


def suffix(key):
    if len(key) == 1:
        return "_nets_" + key[0]
    if len(key) == 2:
        return "_vms_" + key[1]
    return "_images_" + key[2] + "_" + key[1]


def impl_run(case):
    """case = {vms, skip_types, sourced:{level:bool}, readonly:[keys], init:{key:[root,[names]]},
               ops:[{op, objs:{keystr:{state, mode, check}}}]}"""
    from avocado_i2n.states import setup as ss
    from avocado.core import exceptions
    from virttest.utils_params import Params
    mem, memsrc = make_backends()
    ss.BACKENDS["mem"], ss.BACKENDS["memsrc"] = mem, memsrc
    STORE.data = {tuple(k.split("/")): [v[0], list(v[1])] for k, v in case["init"].items()}
    vms = case["vms"]
    base = {"nets": "net1", "vms": " ".join(v for v, _ in vms), "states_chain": "nets vms images",
            "skip_types": " ".join(case["skip_types"]), "pool_scope": "own shared",
            "states_nets": "memsrc" if case["sourced"]["1"] else "mem",
            "states_vms": "memsrc" if case["sourced"]["2"] else "mem",
            "states_images": "memsrc" if case["sourced"]["3"] else "mem"}
    for vm, images in vms:
        base[f"images_{vm}"] = " ".join(images)
    for k in case["readonly"]:
        key = tuple(k.split("/"))
        base[f"image_readonly_{key[2]}_{key[1]}"] = "yes"
    outs = []
    for op in case["ops"]:
        p = dict(base)
        for k, cfg in op["objs"].items():
            key = tuple(k.split("/"))
            sfx = suffix(key)
            if cfg.get("state"):
                p[f"{op['op']}_state{sfx}"] = cfg["state"]
            if cfg.get("mode"):
                p[f"{op['op']}_mode{sfx}"] = cfg["mode"]
            if cfg.get("check"):
                p[f"check_mode{sfx}"] = cfg["check"]
            # parameters of OTHER operations configured for the same object (as on every test node, which carries
            # get/set/unset settings side by side): the operation at hand must not read them
            for k2, v2 in (cfg.get("bystanders") or {}).items():
                p[f"{k2}{sfx}"] = v2
        STORE.log = []
        fn = getattr(ss, op["op"] + "_states")
        try:
            r = fn(Params(p), FakeEnv())
            code = 1 if (op["op"] == "check" and r is False) else 0
        except exceptions.TestAbortError:
            code = 2
        except exceptions.TestError:
            code = 3
        except Exception as e:      # anything else is outside the documented outcomes
            code = 9
            STORE.log.append(("exception", repr(e)))
        outs.append((list(STORE.log), code))
    final = {"/".join(k): [v[0], list(v[1])] for k, v in STORE.data.items()}
    ss.BACKENDS.pop("mem", None)
    ss.BACKENDS.pop("memsrc", None)
    return outs, final


# ----------------------------------------------------------------------------- Coq terms
def case_term(case, outs, final, I):
    objs_order = topology(case["vms"])
    K = lambda key: I("/".join(key))   # noqa: E731
    keys = [K(k) for k, _ in objs_order]

    def store_term(d):
        return clist([cpair(cN(I(k)), cpair(cbool(v[0]), clist([cN(I("s:" + x)) for x in v[1]])))
                      for k, v in sorted(d.items())])

    def obj_term(op, key, level):
        cfg = op["objs"].get("/".join(key), {})
        st = cfg.get("state")
        state = "None" if not st else copt(cpair(cN(I("s:" + st)), cbool(st in ROOT_WORDS)))
        mode = "None" if not cfg.get("mode") else copt(mode_term(cfg["mode"]))
        # for the check operation "<op>_mode" IS check_mode
        check = mode_term(cfg.get("check") or (cfg.get("mode") if op["op"] == "check" else None) or "rf")
        return (f"(mkObj {cN(K(key))} {TYP[level]} {cbool(FULLTYPE[level] in case['skip_types'])} "
                f"{cbool(SHORTTYPE[level] in case['skip_types'])} {cbool('/'.join(key) in case['readonly'])} "
                f"{state} {mode} {check} {cbool(case['sourced'][str(level)])})")

    def call_term(c):
        k = cN(K(c[1])) if isinstance(c[1], tuple) else "0%N"
        kind = c[0]
        if kind == "show":
            return f"CShow {k}"
        if kind == "get":
            return f"CGet {k} {cN(I('s:' + c[2]))}"
        if kind == "set":
            return f"CSet {k} {cN(I('s:' + c[2]))}"
        if kind == "unset":
            return f"CUnset {k} {cN(I('s:' + c[2]))}"
        if kind == "check_root":
            return f"CCheckRoot {k}"
        if kind == "get_root":
            return f"CGetRoot {k}"
        if kind == "set_root":
            return f"CSetRoot {k} {cbool(c[2])}"
        if kind == "unset_root":
            return f"CUnsetRoot {k}"
        if kind == "destroy":
            return f"CDestroy {k}"
        return "CDestroy 0%N"     # an unexpected exception: never matches (key 0 is not used)
    ops_t = clist([cpair(OPK[op["op"]], clist([obj_term(op, k, l) for k, l in objs_order])) for op in case["ops"]])
    outs_t = clist([cpair(clist([call_term(c) for c in lg]), cN(code)) for lg, code in outs])
    return cpair(clist([cN(k) for k in keys]), store_term(case["init"]), ops_t, outs_t, store_term(final))


# ----------------------------------------------------------------------------- generators
NAMES = ["install", "customize", "on_customize"]


def single_object_product():
    """the product named in the quantifier, one object addressed per call: op x 25 modes x state
    present/absent x root present/absent x root keyword/ordinary x type x check_mode"""
    cases = []
    checks = [None, "rr", "ff", "fr", "rx", "xr", "ri", "ar"]
    for level in (1, 2, 3):
        key = {1: "net1", 2: "net1/vm1", 3: "net1/vm1/image1"}[level]
        for op in ("get", "set", "unset", "push", "pop"):
            for m1, m2 in itertools.product(LETTERS, repeat=2):
                for present, root, kw in itertools.product((True, False), repeat=3):
                    if present and not root:
                        continue      # states of a missing object cannot exist
                    for chk in checks:
                        st = "root" if kw else "customize"
                        init = {key: [root, ["customize", "install"] if (present and not kw) else (["install"] if root else [])]}
                        cases.append({"vms": [("vm1", ["image1"])], "skip_types": [], "readonly": [],
                                      "sourced": {"1": False, "2": False, "3": level == 3 and m1 == "f" and chk is None},
                                      "init": init,
                                      "ops": [{"op": op, "objs": {key: {"state": st, "mode": m1 + m2, "check": chk}}}]})
        for chk in [c1 + c2 for c1, c2 in itertools.product(LETTERS, repeat=2)]:
            for present, root, kw in itertools.product((True, False), repeat=3):
                if present and not root:
                    continue
                init = {key: [root, ["customize"] if present else []]}
                cases.append({"vms": [("vm1", ["image1"])], "skip_types": [], "readonly": [],
                              "sourced": {"1": False, "2": False, "3": False}, "init": init,
                              "ops": [{"op": "check", "objs": {key: {"state": "boot" if kw else "customize", "check": chk}}}]})
    return cases


def random_case(rng, nops):
    vms = [("vm1", ["image1"] if rng.random() < 0.6 else ["image1", "image2"])]
    if rng.random() < 0.6:
        vms.append(("vm2", ["image1"]))
    if rng.random() < 0.2:
        vms.append(("vm3", ["image1", "image2"]))
    objs = topology(vms)
    skip = [t for t in ("nets", "nets/vms", "nets/vms/images", "vms", "images") if rng.random() < 0.12]
    readonly = ["/".join(k) for k, l in objs if l == 3 and rng.random() < 0.12]
    init = {}
    for k, l in objs:
        r = rng.random() < 0.7
        init["/".join(k)] = [r, [n for n in NAMES if r and rng.random() < 0.4]]
    ops = []
    for _ in range(nops):
        op = rng.choice(OPS)
        cfg = {}
        for k, l in objs:
            if rng.random() < (0.5 if l > 1 else 0.25):
                st = rng.choice(NAMES + NAMES + ROOT_WORDS) if rng.random() < 0.9 else None
                roll = rng.random()
                if roll < 0.45:
                    mode = None
                elif roll < 0.9:
                    mode = rng.choice("arif") + rng.choice("arif")
                else:
                    mode = rng.choice(LETTERS) + rng.choice(LETTERS)
                chk = None if rng.random() < 0.6 else rng.choice(["rf", "rr", "ff", "fr", "rx", "ir"])
                cfg["/".join(k)] = {"state": st, "mode": mode, "check": chk}
                if rng.random() < 0.35:
                    others = [o for o in ("get", "set", "unset") if o != op and not (op == "push" and o == "set")
                              and not (op == "pop" and o in ("get", "unset"))]
                    by = {}
                    for o in others:
                        if rng.random() < 0.6:
                            by[f"{o}_state"] = rng.choice(NAMES)
                            if rng.random() < 0.5:
                                by[f"{o}_mode"] = rng.choice("arif") + rng.choice("arif")
                    cfg["/".join(k)]["bystanders"] = by
        ops.append({"op": op, "objs": cfg})
    return {"vms": vms, "skip_types": skip, "readonly": readonly,
            "sourced": {"1": rng.random() < 0.3, "2": rng.random() < 0.3, "3": rng.random() < 0.5},
            "init": init, "ops": ops}


def shrink(case, still_fails):
    """drop operations, then per-object settings, while the case still fails"""
    changed = True
    while changed:
        changed = False
        for i in range(len(case["ops"])):
            c2 = dict(case, ops=case["ops"][:i] + case["ops"][i + 1:])
            if c2["ops"] and still_fails(c2):
                case, changed = c2, True
                break
        else:
            for i, op in enumerate(case["ops"]):
                for k in list(op["objs"]):
                    o2 = dict(op, objs={a: b for a, b in op["objs"].items() if a != k})
                    c2 = dict(case, ops=case["ops"][:i] + [o2] + case["ops"][i + 1:])
                    if still_fails(c2):
                        case, changed = c2, True
                        break
                if changed:
                    break
    return case


def run(ctx, replay=None):
    rng = ctx.rng
    if replay:
        cases = [replay["data"]["case"]] if "case" in replay["data"] else []
        n_product = 0
    else:
        cases = single_object_product()
        n_product = len(cases)
        for _ in range(3000 if ctx.thorough else 500):
            cases.append(random_case(rng, rng.randint(1, 40 if ctx.thorough else 12)))
    I = Interner()
    results = [impl_run(c) for c in cases]
    terms = [case_term(c, o, f, I) for c, (o, f) in zip(cases, results)]
    checkers = ["ops_corr", "ops_monitor", "ops_untouched"]
    res = coq_failing(ctx, IMPORTS, "ops_case", terms, checkers, shard=400, tag="ops") if terms else {c: [] for c in checkers}
    ctx.obligation("correspondence:state-operations", "correspondence", not res["ops_corr"],
                   f"{len(res['ops_corr'])} of {len(cases)} cases disagree")
    bad_mon = set(res["ops_monitor"]) | set(res["ops_untouched"])

    def fails(which):
        def f(c):
            o, fin = impl_run(c)
            t = case_term(c, o, fin, Interner())
            r = coq_failing(ctx, IMPORTS, "ops_case", [t], which, shard=1, tag="shrink")
            return any(r[w] for w in which)
        return f
    seen = set()
    for k in sorted(set(res["ops_corr"]) | bad_mon):
        has_input = k in bad_mon
        c = cases[k]
        kinds = sorted({op["op"] for op in c["ops"]})
        if has_input:
            which = [w for w in ("ops_monitor", "ops_untouched") if k in res[w]]
        else:
            which = ["ops_corr"]
        sig = f"C12:{'policy' if has_input else 'correspondence'}:{which[0]}:{kinds[0] if len(kinds) == 1 else 'sequence'}"
        if sig in seen:
            continue
        seen.add(sig)
        if len(seen) > 4:
            break
        small = shrink(c, fails(which)) if len(c["ops"]) > 1 or any(len(op["objs"]) > 1 for op in c["ops"]) else c
        o, fin = impl_run(small)
        ctx.fail(sig, ("state operations do not follow the documented policy table / store model" if has_input
                       else "states/setup.py and Model/StateOps.v disagree (calls, results or store)"),
                 {"case": small, "impl_calls_and_codes": o, "impl_final_store": fin,
                  "obligation": "correspondence:state-operations", "failed_checkers": which}, has_input)
    ctx.count(len(cases), sum(1 for (o, f) in results if any(code in (2, 3) for _, code in o)))
    ctx.coverage["exhaustive"] = not replay
    hist = {}
    for (o, f) in results:
        for _, code in o:
            hist[code] = hist.get(code, 0) + 1
    ctx.coverage["result_code_histogram"] = {str(k): v for k, v in sorted(hist.items())}
    ctx.coverage["product_cases"] = n_product
    if cases:
        ctx.sample({"case": cases[min(len(cases) - 1, n_product + 1)], "impl": results[min(len(cases) - 1, n_product + 1)][0]})
    ctx.coverage["rule"] = ("exhaustive single-object product: {get,set,unset,push,pop} x 25 two-letter modes over {a,r,i,f,x} x "
                            "(state present, root present, root keyword) x {net, vm, image} x 8 check modes (None=default), and check x 25 check "
                            "modes; plus random operation sequences (1-3 vms, 1-2 images, skip_types, readonly images, sourced/plain "
                            "backends). Non-trivial: cases in which some call aborted or raised TestError. Codes: 0 done/True, 1 False, "
                            "2 TestAbortError, 3 TestError, 9 other exception.")
    ctx.explanation.append(
        "Theorems in Props/C12.v: the three dispatch chains equal the README table (all 2x25 inputs each, by case analysis); "
        "every operation on any object list and store computes the store and result of the set-of-names specification "
        "(refinement, any number of objects); lifted over any operation sequence; an abort or invalid policy leaves the store as "
        "the embedded check left it (unchanged unless check_mode forces root creation); objects not addressed are never passed "
        "to the backend and their entries never change. The model is compared call-by-call with the real functions through an "
        "in-memory backend registered in BACKENDS.")
    ctx.assumptions += ["virttest Params.object_params (suffix resolution) is library code reached through the real call",
                        "the in-memory backend's semantics (unset_root drops the object's states; set appends a name once)"]
