"""C17 — QCOW2VTBackend.show / RamfileBackend._show / on-off regexes against Model/VmStates.v."""
import itertools
import os
from unittest import mock

from harness.common import cN, cbool, clist, cpair, copt, coq_failing, Interner

IMPORTS = "Model.VmStates Check.C17"
SIZES_ON = ["1 B", "10 B", "100 B", "1 KiB", "512 MiB", "1.5 GiB", "1e+03 KiB", "0.5 KiB", "10 GiB", "2.02 GiB"]
TAGS = ["install", "customize", "on_customize", "with.dot", "with-dash", "a", "0", "10", "snap0", "x0", "a.0",
        "0tag", "1-2.3_4", "B", "state_10", "000", "b0", "v1.0"]


def listing(entries, width):
    """Print entries the way `qemu-img snapshot -l` does (both column layouts of qemu)."""
    out = "Snapshot list:\n"
    if width == 17:
        out += "%-10s%-17s%7s%20s%13s%11s\n" % ("ID", "TAG", "VM SIZE", "DATE", "VM CLOCK", "ICOUNT")
    else:
        out += "%-10s%-20s%7s%20s%15s\n" % ("ID", "TAG", "VM SIZE", "DATE", "VM CLOCK")
    for k, (tag, size) in enumerate(entries, 1):
        if width == 17:
            out += "%-10s%-17s%7s%20s%13s%11s\n" % (k, tag, size, "2024-02-29 23:59:59", "00:00:00.000", "0")
        else:
            out += "%-10s%-20s%7s%20s%15s\n" % (k, tag, size, "2024-02-29 23:59:59", "00:01:02.345")
    return out


def impl_show_vm(img_lists, width):
    """QCOW2VTBackend.show with QemuImg substituted (as in the selftests), one listing per image."""
    from avocado_i2n.states import qcow2
    from virttest.utils_params import Params
    params = Params({"vms": "vm1", "images": " ".join(f"image{i + 1}" for i in range(len(img_lists))),
                     "images_base_dir": "/x"})
    listings = {f"image{i + 1}": listing([(t, "1.5 GiB") for t in lst] + [("offonly", "0 B")], width)
                for i, lst in enumerate(img_lists)}

    class FakeQemuImg:
        def __init__(self, p, root, tag):
            self.tag = tag

        def snapshot_list(self, force_share=False):
            return listings[self.tag]
    with mock.patch("avocado_i2n.states.qcow2.QemuImg", FakeQemuImg):
        try:
            return list(qcow2.QCOW2VTBackend.show(params, object=None))
        except AttributeError:
            return None


def impl_show_ram(img_lists, memfiles):
    from avocado_i2n.states import ramfile
    from virttest.utils_params import Params
    params = Params({"vms": "vm1", "images": " ".join(f"image{i + 1}" for i in range(len(img_lists))),
                     "swarm_pool": "/pool", "object_id": "vm1-id"})
    per_image = {f"image{i + 1}": lst for i, lst in enumerate(img_lists)}
    image_backend = mock.MagicMock()
    image_backend.show = lambda image_params, object=None: list(per_image[image_params["images"]])
    mock_os = mock.MagicMock()
    mock_os.listdir.return_value = [m + ".state" for m in memfiles] + ["junk.txt", "install.state.tmp"]
    mock_os.stat.return_value.st_size = 1024
    mock_os.path.join = os.path.join
    old = ramfile.RamfileBackend.image_state_backend
    ramfile.RamfileBackend.image_state_backend = image_backend
    try:
        with mock.patch("avocado_i2n.states.ramfile.os", mock_os):
            try:
                return list(ramfile.RamfileBackend._show(params, object=None))
            except AttributeError:
                return None
    finally:
        ramfile.RamfileBackend.image_state_backend = old


def impl_listing(entries, width):
    from avocado_i2n.states import qcow2
    from virttest.utils_params import Params
    text = listing(entries, width)

    class FakeQemuImg:
        def __init__(self, p, root, tag):
            pass

        def snapshot_list(self, force_share=False):
            return text
    params = Params({"vms": "vm1", "images": "image1", "images_base_dir": "/x"})
    with mock.patch("avocado_i2n.states.qcow2.QemuImg", FakeQemuImg):
        off = qcow2.QCOW2Backend.show(params, object=None)
        # the on-regex is selected by the class attribute of the vm backend; call the shared
        # implementation through a subclass of the image backend with that attribute set
        on_cls = type("OnProbe", (qcow2.QCOW2Backend,), {"_require_running_object": True})
        on = on_cls.show(params, object=None)
    return off, on


def run(ctx, replay=None):
    rng = ctx.rng
    I = Interner()
    names = ["a", "b", "c", "d"]
    subsets = [[n for k, n in enumerate(names) if m >> k & 1] for m in range(16)]
    cases = []          # (imgs, memfiles or None, width)
    if replay:
        d = replay["data"]
        cases = [(d["imgs"], d.get("memfiles"), d.get("width", 17))] if "imgs" in d else []
    else:
        # exhaustive: all assignments of subsets of a 4-name universe to 1..3 images
        for n in (1, 2, 3):
            for combo in itertools.product(subsets, repeat=n):
                imgs = [list(s) for s in combo]
                if rng.random() < 0.5:
                    for s in imgs:
                        rng.shuffle(s)
                cases.append((imgs, None, 17 if rng.random() < 0.5 else 20))
        # ramfile: exhaustive for 1..2 images x memory-file subsets, sampled for 3
        for n in (1, 2):
            for combo in itertools.product(subsets, repeat=n):
                for memf in subsets:
                    cases.append(([list(s) for s in combo], list(memf), 17))
        for _ in range(2000 if ctx.thorough else 400):
            imgs = [rng.sample(names, rng.randint(0, 4)) for _ in range(3)]
            cases.append((imgs, rng.sample(names, rng.randint(0, 4)), 17))
    outs = [impl_show_vm(i, w) if m is None else impl_show_ram(i, m) for i, m, w in cases]
    terms = [cpair(clist([clist([cN(I(s)) for s in img]) for img in imgs]),
                   "None" if m is None else copt(clist([cN(I(s)) for s in m])),
                   "None" if o is None else copt(clist([cN(I(s)) for s in o])))
             for (imgs, m, w), o in zip(cases, outs)]
    if terms:
        res = coq_failing(ctx, IMPORTS, "show_case", terms, ["show_corr", "show_monitor"], shard=400, tag="show")
        ctx.obligation("correspondence:show", "correspondence", not res["show_corr"],
                       f"{len(res['show_corr'])} of {len(cases)} cases disagree")
        monf = set(res["show_monitor"])
        seen = set()
        for k in sorted(set(res["show_corr"]) | monf):
            imgs, m, w = cases[k]
            has_input = k in monf
            site = "QCOW2VTBackend.show" if m is None else "RamfileBackend._show"
            if not has_input:
                sig = f"C17:{site}:correspondence"
            elif outs[k] is None:
                sig = f"C17:{site}:raises-with-{'2+' if len(imgs) > 1 else '1'}-images"
            elif any(len(x) == 0 for x in imgs) and outs[k]:
                sig = f"C17:{site}:empty-image-ignored"
            else:
                sig = f"C17:{site}:wrong-states"
            if sig in seen:
                continue
            seen.add(sig)
            ctx.fail(sig, f"{site}: " + ("result violates 'listed iff every image has it'" if has_input
                                         else "implementation and model disagree"),
                     {"imgs": imgs, "memfiles": m, "width": w, "impl": outs[k], "obligation": "correspondence:show"}, has_input)
        nontrivial = sum(1 for (imgs, m, w), o in zip(cases, outs)
                         if len(imgs) >= 2 and o and any(set(x) != set(o) for x in imgs))
        ctx.count(len(cases), nontrivial)
        ctx.sample({"imgs": cases[300][0] if len(cases) > 300 else cases[0][0], "impl": outs[300] if len(cases) > 300 else outs[0]})
        ctx.coverage["exhaustive"] = not replay
    # listings
    if not replay or "entries" in replay["data"]:
        lcases = []
        if replay:
            lcases = [(replay["data"]["entries"], replay["data"]["width"])]
        else:
            for _ in range(1500 if ctx.thorough else 300):
                tags = rng.sample(TAGS, rng.randint(0, 8))
                entries = [(t, "0 B" if rng.random() < 0.5 else rng.choice(SIZES_ON)) for t in tags]
                lcases.append((entries, rng.choice([17, 20])))
        louts = [impl_listing(e, w) for e, w in lcases]
        lterms = [cpair(clist([cpair(cN(I("t:" + t)), cbool(s == "0 B")) for t, s in e]),
                        cpair(clist([cN(I("t:" + t)) for t in off]), clist([cN(I("t:" + t)) for t in on])))
                  for (e, w), (off, on) in zip(lcases, louts)]
        res = coq_failing(ctx, IMPORTS, "list_case", lterms, ["list_corr", "list_monitor"], shard=300, tag="listing")
        ctx.obligation("correspondence:on-off-regexes", "correspondence", not res["list_corr"],
                       f"{len(res['list_corr'])} of {len(lcases)} listings disagree")
        monf = set(res["list_monitor"])
        for k in sorted(set(res["list_corr"]) | monf)[:2]:
            has_input = k in monf
            ctx.fail("C17:regex:" + ("misclassified" if has_input else "correspondence"),
                     "snapshot listing: on/off classification " + ("is wrong" if has_input else "differs from the model"),
                     {"entries": lcases[k][0], "width": lcases[k][1], "impl_off_on": louts[k],
                      "listing": listing(*lcases[k]), "obligation": "correspondence:on-off-regexes"}, has_input)
        ctx.count(len(lcases), sum(1 for (e, w) in lcases if len({s == "0 B" for t, s in e}) == 2))
        ctx.sample({"listing": listing(*lcases[0]), "impl_off_on": louts[0]})
    ctx.coverage["rule"] = ("show: all 16+256+4096 assignments of subsets of a 4-name universe to 1..3 images (random orders), "
                            "ramfile: all assignments for 1..2 images x 16 memory-file sets + samples for 3 images; listings: "
                            "random entries with adversarial tags (digits, dots, dashes, tags ending in 0) and sizes (0 B, 10 B, "
                            "1e+03 KiB, 7-character sizes) in both qemu column layouts, tags shorter than the column. "
                            "Non-trivial: >= 2 images with a non-empty result differing from some image's set; a listing with both kinds.")
    ctx.explanation.append(
        "Theorems C17_show_spec / C17_ramfile_spec / C17_show_nodup (any number of images, any lists) and C17_on_off / "
        "C17_on_off_disjoint over Model/VmStates.v. The model is compared with QCOW2VTBackend.show (QemuImg substituted) and "
        "RamfileBackend._show (os and the image backend substituted) exhaustively over a 4-name universe, and the two "
        "regexes are compared with the record-level classification on printed listings. The printer (qemu's column "
        "format) is harness glue; tags at least as long as the tag column are outside the modelled domain (there a 7-character "
        "size follows the tag without white space and the regexes cut the tag short).")
    ctx.assumptions += ["qemu-img's listing format as reproduced by the harness printer", "Python's re module"]
