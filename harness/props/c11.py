"""C11 — cmd_parser.params_from_cmd against Model/CmdLine.v, and the selection semantics of the
resulting restriction strings (Model/Restr.v) against TestGraph.parse_flat_nodes."""
import os
import sys

from harness.common import cN, cbool, clist, cpair, copt, cstr, coq_failing, Interner

IMPORTS = "Model.CmdLine Model.Restr Check.C11"


def setup_env():
    """data of the Cartesian configuration the model takes as its environment"""
    import avocado_i2n.params_parser as param
    vms = param.all_objects("vms")
    restr = param.all_restrictions()
    cfg = param.Reparsable()
    cfg.parse_next_batch(base_file="guest-base.cfg", ovrwrt_file=param.vms_ovrwrt_file())
    vp = cfg.get_params()
    vm_defaults = {v: vp.get(f"default_only_{v}") for v in vms if vp.get(f"default_only_{v}") is not None}
    cfg = param.Reparsable()
    cfg.parse_next_batch(base_file="groups-base.cfg", ovrwrt_file=param.tests_ovrwrt_file())
    tests_default = cfg.get_params().get("default_only")
    return {"vms": vms, "restr": restr, "vm_defaults": vm_defaults, "tests_default": tests_default}


ORACLE = {}


def nets_oracle(ns):
    import avocado_i2n.params_parser as param
    if ns not in ORACLE:
        try:
            ORACLE[ns] = " ".join(param.all_suffixes_by_restriction(ns))
        except Exception:
            ORACLE[ns] = None
    return ORACLE[ns]


def impl_cmd(args):
    import avocado_i2n.cmd_parser as cmd
    config = {"params": list(args)}
    path0 = list(sys.path)
    try:
        cmd.params_from_cmd(config)
        code = 0
    except ValueError as e:
        code = 1
        config["error"] = repr(e)[:200]
    except Exception as e:     # the closing control parse (empty product, parser error) comes after the tokenizing
        code = 0 if "tests_str" in config else 2
        config["error"] = repr(e)[:200]
    sys.path[:] = path0
    if code == 0:
        return 0, (config["tests_str"], list(config["vm_strs"].items()), list(config["param_dict"].items()),
                   config["vms_params"]["vms"])
    return code, ("", [], [], "")


def env_term(env, args):
    # the oracle answers for every nets restriction string the arguments can produce
    keys = {""}
    for a in args:
        for word in ("only", "no"):
            if a.startswith(word + "_nets="):
                v = a.split("=", 1)[1].split("\n")[0]
                keys.add(f"{word} {v}\n" if v else "")
    oracle = clist([cpair(cstr(k), "None" if nets_oracle(k) is None else copt(cstr(nets_oracle(k)))) for k in sorted(keys)])
    return (f"(mkEnv {clist([cstr(v) for v in env['vms']])} {clist([cstr(r) for r in env['restr']])} {oracle} "
            f"{clist([cpair(cstr(k), cstr(v)) for k, v in env['vm_defaults'].items()])} "
            f"{'None' if env['tests_default'] is None else copt(cstr(env['tests_default']))})")


def cstr_nl(s):
    """Coq string literal for a Python string that may contain a newline"""
    parts = s.split("\n")
    out = cstr(parts[0])
    for p in parts[1:]:
        out = f"({out} ++ nl ++ {cstr(p)})"
    return out


def cmd_term(env, args, out):
    code, (tests, vm_strs, pdict, vms) = out
    return cpair(env_term(env, args), clist([cstr_nl(a) for a in args]),
                 cpair(cN(code), cpair(cstr_nl(tests), clist([cpair(cstr(k), cstr_nl(v)) for k, v in vm_strs]),
                                       clist([cpair(cstr(k), cstr_nl(v)) for k, v in pdict]), cstr(vms))))


# ----------------------------------------------------------------------------- generators
TEST_VARIANTS = ["normal", "minimal", "all", "leaves", "nonleaves", "tutorial1", "tutorial2", "tutorial3", "quicktest",
                 "nongui", "gui", "tutorial_get", "client_noop", "explicit_noop", "names", "files", "bogus", "install", "noop"]
VM_VARIANTS = ["CentOS", "Fedora", "Win10", "Win7", "Ubuntu", "Kali", "qcow1", "qcow2"]
NET_RESTRS = ["cluster1", "cluster2", "localhost", "net1", "net6", "cluster1..net6", "cluster1..net6,net7", "net7,net9", "bogus"]
KEYS = ["aaa", "ccc", "max_tries", "default_only", "default_only_vm1", "dry_run", "x_1", "nets_spawner", "only1", "noise"]


def gen_restr(rng, pool):
    n = rng.choice([1, 1, 1, 2, 2, 3])
    parts = []
    for _ in range(n):
        parts.append(rng.choice(pool))
        parts.append(rng.choice([",", "..", ".", "..", ","]))
    return "".join(parts[:-1])


def gen_args(rng, env, malformed):
    args = []
    for _ in range(rng.choice([0, 1, 1, 2, 2, 3, 4, 6])):
        r = rng.random()
        if r < 0.3:
            args.append(f"{rng.choice(['only', 'only', 'no'])}={gen_restr(rng, TEST_VARIANTS)}")
        elif r < 0.45:
            vm = rng.choice(env["vms"])
            args.append(f"{rng.choice(['only', 'only', 'no'])}_{vm}={rng.choice(['', gen_restr(rng, VM_VARIANTS)])}")
        elif r < 0.55:
            args.append("vms=" + ",".join(rng.sample(env["vms"], rng.randint(1, len(env["vms"])))))
        elif r < 0.63:
            args.append("nets=" + ",".join(rng.sample(["net1", "net2", "net3", "cluster1.net6"], rng.randint(1, 3))))
        elif r < 0.73:
            args.append(f"{rng.choice(['only', 'no'])}_nets={rng.choice(NET_RESTRS + [''])}")
        else:
            args.append(f"{rng.choice(KEYS)}={rng.choice(['bbb', '1', '2,3', 'a,b,c', '', 'x=y', 'normal', 'nonminimal', 'CentOS', 'yes'])}")
    if malformed:
        bad = rng.choice(["ccc", "=x", " a=b", "a b=c", "a-b=c", "vms=vmX", "vms=", "vms=vm1,,vm2", "only_vm11=CentOS", "only_vmX=CentOS",
                          "no_something=restr", "only_netsx=cluster1", "only_=x", "only_vm1x=Fedora", "a=b\nc=d", "-x=1", "",
                          "nets=net1,net2", "only_nets=cluster1", "no_nets=net1", "vms=vm1 vm2", "only_vm=CentOS", "onlyvm1=CentOS"])
        args.insert(rng.randint(0, len(args)), bad)
        if rng.random() < 0.4:
            args.insert(rng.randint(0, len(args)), rng.choice(["nets=net1", "only_nets=cluster2", "no_nets=", "only_nets="]))
    return args


def run(ctx, replay=None):
    rng = ctx.rng
    env = setup_env()
    corpus = [["nets=net1,net2", "only_nets=cluster1"], ["only_nets=cluster1", "nets=net1,net2"], ["only_vm11=CentOS"],
              ["only_netsx=cluster1"], ["only_nets=cluster1", "only_nets=", "nets=net1"], ["aaa=bbb", "ccc"], ["default_only=nonminimal"],
              ["only=tutorial1", "only=minimal"], ["vms=vm2", "only_vm2=Win7", "only_vm1=Fedora"], ["x=1,2\n3"], []]
    if replay:
        cases = [replay["data"]["args"]] if "args" in replay["data"] else []
    else:
        cases = list(corpus)
        n = 6000 if ctx.thorough else 1500
        for k in range(n):
            cases.append(gen_args(rng, env, malformed=(k % 3 == 2)))
    if cases:
        outs = [impl_cmd(a) for a in cases]
        terms = [cmd_term(env, a, o) for a, o in zip(cases, outs)]
        res = coq_failing(ctx, IMPORTS, "cmd_case", terms, ["cmd_corr", "cmd_monitor"], shard=250, tag="cmd")
        ctx.obligation("correspondence:params_from_cmd", "correspondence", not res["cmd_corr"],
                       f"{len(res['cmd_corr'])} of {len(cases)} argument lists disagree")
        mon = set(res["cmd_monitor"])
        seen = set()
        for k in sorted(set(res["cmd_corr"]) | mon, key=lambda k: len(cases[k])):
            has_input = k in mon
            args = cases[k]
            kind = "accepted-or-misparsed" if has_input else "correspondence"
            if has_input and outs[k][0] == 0:
                if any(a.startswith("nets=") for a in args) and any(a.startswith(("only_nets=", "no_nets=")) for a in args):
                    kind = "nets-conflict-accepted"
                elif any(a.startswith(("only_", "no_")) for a in args):
                    kind = "object-restriction"
            sig = f"C11:cmdline:{kind}"
            if sig in seen:
                continue
            seen.add(sig)
            ctx.fail(sig, "params_from_cmd: " + ("result contradicts the documented meaning of the arguments" if has_input
                                                 else "implementation and Model/CmdLine.v disagree"),
                     {"args": args, "impl": outs[k], "obligation": "correspondence:params_from_cmd"}, has_input)
        ctx.count(len(cases), sum(1 for a, o in zip(cases, outs) if o[0] == 0 and len(a) >= 2))
        hist = {"ok": 0, "ValueError": 0, "other": 0}
        for o in outs:
            hist[["ok", "ValueError", "other"][o[0]]] += 1
        ctx.coverage["outcome_histogram"] = hist
        ctx.sample({"args": cases[len(corpus) + 1] if len(cases) > len(corpus) + 1 else cases[0],
                    "impl": outs[len(corpus) + 1] if len(cases) > len(corpus) + 1 else outs[0]})
    from harness.props import c11_select
    c11_select.run_select(ctx, replay, env)
    ctx.coverage["rule"] = ("argument lists of 0-6 arguments drawn from only/no (variants of the shipped suite joined by ',', '..', '.'), "
                            "only_/no_<vm>, vms=, nets=, only_/no_nets and free K=V (keys incl. default_only*, values with commas, '=' and "
                            "empty); every third list gets one malformed / near-miss / conflicting argument at a random position. "
                            "Non-trivial: accepted lists with at least two arguments. Selection: see selection_rule.")
    ctx.explanation.append(
        "Theorems in Props/C11.v over Model/CmdLine.v (all argument lists): tests_str is the only/no arguments in order plus the default iff "
        "no primary restriction occurs; a free K=V ends up in param_dict with the last value and commas as spaces; malformed arguments, "
        "unknown vms, restrictions of unknown objects and nets= combined with an effective nets restriction in either order are rejected; "
        "over Model/Restr.v: repeated only lines intersect and equal the '..' form for comma-free restrictions, no excludes. The model is "
        "compared with params_from_cmd on generated lists, and Restr.select with parse_flat_nodes on the shipped suite's universe.")
    ctx.assumptions += ["the configuration data (available vms/restrictions, configured defaults, all_suffixes_by_restriction answers) "
                        "is read from the real configs by the harness and handed to the model as its environment",
                        "arguments are ASCII; \\w is modelled as [A-Za-z0-9_]"]
