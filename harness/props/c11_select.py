"""C11, second half: what the restriction strings produced from a command line select, according to
Model/Restr.v, against TestGraph.parse_flat_nodes on the shipped suite's universe of flat tests."""
from harness.common import cN, clist, cpair, coq_failing, Interner

IMPORTS = "Model.CmdLine Model.Restr Check.C11"
VARIANTS = ["normal", "minimal", "all", "leaves", "nonleaves", "tutorial1", "tutorial2", "tutorial3", "quicktest", "nongui", "gui",
            "tutorial_get", "tutorial_gui", "client_noop", "client_clicked", "names", "files", "original", "install", "noop",
            "no_remote", "tutorial_finale", "getsetup", "guisetup", "internal", "automated", "customize", "connect", "bogus"]


def parse_restr(text):
    """'a.b..c,d' -> OR of AND of adjacency blocks (harness glue: the three splits)"""
    return [[blk.split(".") for blk in word.split("..")] for word in text.split(",")]


def names_of(restriction):
    from avocado_i2n.cartgraph import TestGraph
    from avocado_i2n import params_parser as param
    try:
        return [n.params["name"] for n in TestGraph.parse_flat_nodes(restriction)]
    except param.EmptyCartesianProduct:
        return []


def gen_lines(rng):
    lines = []
    for _ in range(rng.choice([1, 1, 2, 2, 3])):
        words = []
        for _ in range(rng.choice([1, 1, 1, 2])):
            blocks = []
            for _ in range(rng.choice([1, 1, 2])):
                if rng.random() < 0.25:
                    a, b = rng.choice([("nongui", "quicktest"), ("quicktest", "tutorial1"), ("tutorial2", "names"), ("normal", "gui"),
                                       ("quicktest", "tutorial2"), ("tutorial1", "quicktest"), ("gui", "tutorial_gui")])
                    blocks.append(f"{a}.{b}")
                else:
                    blocks.append(rng.choice(VARIANTS))
            words.append("..".join(blocks))
        lines.append((rng.choice(["only", "only", "only", "no"]), ",".join(words)))
    return lines


def run_select(ctx, replay, env):
    rng = ctx.rng
    universe = names_of("")
    dup = [n for n in universe if len(set(n.split("."))) != len(n.split("."))]
    ctx.obligation("hypothesis:no-repeated-variant-in-universe", "hypothesis", not dup, f"{dup[:3]}")
    fixed = [[("only", "normal")], [("only", "tutorial1"), ("only", "normal")], [("only", "normal..tutorial1")],
             [("no", "gui"), ("only", "normal")], [("only", "leaves")], [("only", "minimal"), ("only", "tutorial2")],
             [("only", "tutorial1,tutorial2"), ("only", "normal")], [("only", "nongui.quicktest")], [("only", "quicktest.nongui")],
             [("only", "leaves..tutorial2..names")], [("only", "all"), ("no", "original")], [("only", "bogus")]]
    if replay:
        cases = [replay["data"]["lines"]] if "lines" in replay["data"] else []
    else:
        cases = fixed + [gen_lines(rng) for _ in range(500 if ctx.thorough else 110)]
    if not cases:
        return
    I = Interner()
    U_t = clist([clist([cN(I(v)) for v in n.split(".")]) for n in universe])
    terms, gots = [], []
    for lines in cases:
        text = "".join(f"{k} {v}\n" for k, v in lines)
        got = names_of(text)
        gots.append(got)
        lt = clist([("Only " if k == "only" else "No ") + clist([clist([clist([cN(I(v)) for v in blk]) for blk in word])
                                                                  for word in parse_restr(v)]) for k, v in lines])
        terms.append(cpair(lt, "U", clist([clist([cN(I(v)) for v in n.split(".")]) for n in got])))
    # the universe is shared: define it once per shard
    from harness import common
    old = common.PRELUDE
    common.PRELUDE = old + "From I2N Require Import Model.Restr.\nDefinition U : list name := " + U_t + ".\n"
    try:
        res = coq_failing(ctx, IMPORTS, "sel_case", terms, ["sel_corr"], shard=100, tag="select")
    finally:
        common.PRELUDE = old
    ctx.obligation("correspondence:selection-vs-cartesian-parser", "correspondence", not res["sel_corr"],
                   f"{len(res['sel_corr'])} of {len(cases)} restriction sets select different tests")
    for k in res["sel_corr"][:2]:
        ctx.fail("C11:selection:correspondence", "the tests parse_flat_nodes yields differ from Restr.select over the universe",
                 {"lines": cases[k], "impl_names": gots[k], "obligation": "correspondence:selection-vs-cartesian-parser"}, False)
    ctx.count(len(cases), sum(1 for g in gots if 0 < len(g) < len(universe)))
    ctx.coverage["selection_rule"] = (f"universe = the {len(universe)} flat tests of the shipped suite (no name repeats a variant: checked); "
                                      "restriction sets of 1-3 only/no lines over 29 variant names with ',', '..' and '.' forms, "
                                      "plus 12 fixed sets; non-trivial: a non-empty proper subset is selected")
    ctx.coverage["selection_sizes"] = sorted({len(g) for g in gots})
