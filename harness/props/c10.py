"""C10 — TestNode.should_rerun / default_run_decision and TestRunner.run_test_node /
all_results_ok against Model/Retry.v, on real TestNode / TestRunner objects."""
import asyncio
import os
import itertools
from unittest import mock

from harness.common import cN, cZ, cnat, cbool, clist, cpair, copt, coq_failing
from harness import synth

IMPORTS = "Model.Retry Check.C10"
EXTRA_TARGETS = ["Check/Trav.vo"]
WORDS = ["fail", "error", "pass", "warn", "skip", "cancel", "interrupted", "unknown"]
ST = {"fail": "SFail", "error": "SError", "pass": "SPass", "warn": "SWarn", "skip": "SSkip",
      "cancel": "SCancel", "interrupted": "SInterrupted", "unknown": "SUnknown"}


def tokens(value, replay, is_rerun):
    """the split the code applies to the parameter string (harness glue): rerun_status is split at
    commas under replay and at white space otherwise, stop_status always at white space"""
    if not value:
        return []
    return value.split(",") if (replay and is_rerun) else value.split()


def tok_term(t):
    return copt(ST[t]) if t in ST else "None"


def cfg_term(c):
    mt = c.get("max_tries")
    if mt is None:
        mt_t = "None"
    else:
        try:
            mt_t = copt(copt(cZ(int(mt))))
        except ValueError:
            mt_t = "(Some None)"
    rr = c.get("rerun_status")
    rr_t = "None" if rr is None else copt(clist([tok_term(t) for t in tokens(rr, c["replay"], True)]))
    st_t = clist([tok_term(t) for t in tokens(c.get("stop_status") or "", c["replay"], False)])
    return (f"(mkCfg {cbool(c['dry'])} {cbool(c['flat'])} {cbool(c['cloned'])} {cbool(c['replay'])} "
            f"{mt_t} {rr_t} {st_t})")


def build_node(c, statuses, stateful=False):
    synth.reset_swarms()
    w = synth.make_worker("net1")
    net, vms, imgs = synth.make_objects(w, {"vm1": {"images": ["image1"]}})
    p = {}
    if c["dry"]:
        p["dry_run"] = "yes"
    if c["replay"]:
        p["replay"] = "job-x"
    for k in ("max_tries", "rerun_status", "stop_status"):
        if c.get(k) is not None:
            p[k] = c[k]
    if stateful:
        p["set_state_images_image1_vm1"] = "customize"
    objs = [] if c["flat"] else [net, vms["vm1"], imgs[("vm1", "image1")]]
    n = synth.make_node("1", "normal.nongui.tutorial1.vm1.net1", w, objs, p)
    if c["cloned"]:
        n._cloned_nodes = [synth.make_node("2", "normal.nongui.tutorial1.vm1.net1", w, objs, p)]
    n.results = [{"name": n.params["name"], "status": s.upper()} for s in statuses]
    return n, w


def impl_rerun(c, statuses, stateful):
    n, w = build_node(c, statuses, stateful)
    try:
        return 1 if n.should_rerun(w) else 0
    except ValueError:
        return 2


def impl_decide(c, statuses, stateful, finished, scan):
    n, w = build_node(c, statuses, stateful)
    if finished:
        n.finished_worker = w
    n.started_worker = w
    default_rerun = n.should_rerun
    with mock.patch.object(type(n), "scan_states", lambda self: scan):
        try:
            code = 1 if n.default_run_decision(w) else 0
        except ValueError:
            code = 2
    off = n.should_rerun is not default_rerun and n.should_rerun != default_rerun
    return code, off


class Awaitable:
    def __await__(self):
        return
        yield


def impl_run(nprev, reported, dur, prev_pass):
    """run_test_node on a node with `nprev` earlier results (the PASS ones with the given durations);
    the stub task reports `reported` (or nothing) under the uid it was given"""
    from avocado_i2n.plugins.runner import TestRunner
    from avocado.core.test_id import TestID
    c = {"dry": False, "flat": False, "cloned": False, "replay": False}
    n, w = build_node(c, [])
    name = n.params["name"]
    n.results = [{"name": name, "status": "PASS", "time_elapsed": str(d)} for d in prev_pass]
    n.results += [{"name": name, "status": "FAIL", "time_elapsed": "1"} for _ in range(nprev - len(prev_pass))]
    runner = TestRunner()
    runner.job = mock.MagicMock()
    runner.job.result.tests = [{"name": TestID("9", name), "status": "ERROR", "time_elapsed": 1.0},      # another uid
                               {"name": TestID("1", "other." + name), "status": "ERROR", "time_elapsed": 1.0}]
    seen = {}

    async def task(self, node):
        seen["uid"] = node.id_test.uid
        seen["placeholder"] = {"name": name, "status": "UNKNOWN"} in node.results
        if reported is not None:
            runner.job.result.tests.append({"name": TestID(node.id_test.uid, name), "status": reported.upper(),
                                            "time_elapsed": float(dur)})

    async def nosleep(t):
        return None
    with mock.patch.object(TestRunner, "run_test_task", task), \
            mock.patch("avocado_i2n.plugins.runner.asyncio.sleep", nosleep):
        ret = asyncio.new_event_loop().run_until_complete(runner.run_test_node(n))
    uid = seen["uid"]
    suffix = 0 if uid == "1" else (int(uid[2:]) if uid.startswith("1r") else 999)
    last = n.results[-1]["status"] if reported is not None else None
    placeholder_left = {"name": name, "status": "UNKNOWN"} in n.results
    rec = None if (reported is None and placeholder_left) else (last.lower() if last else "unknown")
    if reported is not None and placeholder_left:
        rec = "unknown"     # result appended but placeholder not removed: never matches
    return suffix, rec, bool(ret), n.prefix == "1" and seen["placeholder"], len(n.results) - nprev


def impl_verdict(tests):
    from avocado_i2n.plugins.runner import TestRunner
    from avocado.core.test_id import TestID
    r = TestRunner()
    r.job = mock.MagicMock()
    r.job.result.tests = [{"name": TestID(str(k), n), "status": s.upper()} for k, (n, s) in enumerate(tests)]
    return bool(r.all_results_ok())


def impl_replay(jobs, work):
    """results_from_previous_jobs on real result files: jobs = list of (list of (name id, status id)) | None (no file) |
    'notests' (file without a tests list); returns the (name id, status id) list or None when it raised"""
    import json
    import shutil
    from avocado_i2n.plugins.runner import TestRunner
    logs = os.path.join(work, "replay_logs")
    shutil.rmtree(logs, ignore_errors=True)
    os.makedirs(logs)
    names = []
    for k, j in enumerate(jobs):
        names.append(f"job{k}")
        if j is None:
            continue
        os.makedirs(os.path.join(logs, f"job{k}"))
        data = {"other": 1} if j == "notests" else {"tests": [{"name": f"t{n}", "status": WORDS[st].upper(), "id": f"{n}-t{n}"} for n, st in j]}
        with open(os.path.join(logs, f"job{k}", "results.json"), "w") as f:
            json.dump(data, f)
    runner = TestRunner()
    runner.job = mock.MagicMock()
    runner.job.config = {"param_dict": {"replay": " ".join(names)}, "datadir.paths.logs_dir": logs}
    runner.previous_results = []
    try:
        runner.results_from_previous_jobs()
    except Exception:
        return None
    return [(int(r["name"][1:]), WORDS.index(r["status"].lower())) for r in runner.previous_results]


def replay_part(ctx, replay):
    rng = ctx.rng
    if replay and "jobs" in replay.get("data", {}):
        cases = [[None if j is None else (j if j == "notests" else [tuple(x) for x in j]) for j in replay["data"]["jobs"]]]
    elif replay:
        return
    else:
        cases = [[], [[(1, 2)]], [[(1, 2)], [(1, 0)]], [[(1, 2), (2, 0)], [(3, 1)], [(1, 1)]], [[(1, 2)], None], [None], [[(1, 0)], "notests"]]
        for _ in range(120 if ctx.thorough else 40):
            c = []
            for _ in range(rng.randint(1, 4)):
                r = rng.random()
                c.append(None if r < 0.07 else "notests" if r < 0.12 else
                         [(rng.randint(1, 5), rng.randrange(len(WORDS))) for _ in range(rng.randint(0, 5))])
            cases.append(c)
    outs = [impl_replay(c, ctx.work) for c in cases]

    def jt(j):
        return "None" if (j is None or j == "notests") else copt(clist([cpair(cN(n), cN(st)) for n, st in j]))
    terms = [cpair(clist([jt(j) for j in c]), "None" if o is None else copt(clist([cpair(cN(n), cN(st)) for n, st in o])))
             for c, o in zip(cases, outs)]
    res = coq_failing(ctx, IMPORTS, "replay_case", terms, ["replay_corr"], shard=200, tag="replay")
    ctx.obligation("correspondence:results_from_previous_jobs", "correspondence", not res["replay_corr"],
                   f"{len(res['replay_corr'])} of {len(cases)} replay lists give other previous results than the concatenation of all named jobs")
    for k in res["replay_corr"][:1]:
        c, o = cases[k], outs[k]
        expect = None if any(j is None or j == "notests" for j in c) else [x for j in c for x in j]
        ctx.fail("C10:replay:previous-results", f"replaying {len(c)} jobs: previous results {o} instead of {expect}",
                 {"jobs": [j if (j is None or j == "notests") else [list(x) for x in j] for j in c], "impl": o, "expected": expect,
                  "obligation": "correspondence:results_from_previous_jobs"}, True)
    ctx.count(len(cases), sum(1 for c in cases if len([j for j in c if isinstance(j, list) and j]) >= 2))


def traversal_tie(ctx, replay):
    """the schedule-level theorems (identifiers strictly increase, one entry per execution) are about Model/TraverseRun.v:
    a batch of retry-heavy traversals of the real code is compared with that model section by section (uids included)"""
    from harness import travgen
    if replay and "spec" not in replay.get("data", {}):
        return
    fixed = None
    if replay:
        d = replay["data"]
        fixed = (d["spec"], d["initial_pools"], d["schedule"], d.get("terminated", True))
    n = 0 if fixed else (300 if ctx.thorough else 36)
    cases = travgen.run_batch(ctx, n, ["retry", "retry", "contention"], "c10trav", fixed=fixed)
    bad = [c for c in cases if not c["agrees"]]
    ctx.obligation("correspondence:traversal-traces(retry)", "correspondence", not bad,
                   f"{len(bad)} of {len(cases)} retry-heavy traversals differ from Model/TraverseRun.v in some atomic section")
    reused = []
    for c in cases:
        seen = set()
        for evs in c["run"].events:
            for e in evs:
                if e[0] == "start" and not e[4]:
                    key = (e[2], e[3])
                    if key in seen:
                        reused.append((c, key))
                    seen.add(key)
    ctx.obligation("monitor:identifiers-distinct-per-node", "monitor", not reused, f"{len(reused)} executions reuse an identifier of their node")
    for c in bad[:1]:
        d = travgen.replay_data(c)
        d["model_vs_impl"] = travgen.describe_diff(ctx, c)
        d["obligation"] = "correspondence:traversal-traces(retry)"
        ctx.fail("C10:traversal-correspondence", "the traversal (graph.py / node.py / runner.py) and the model disagree on a trace", d, False)
    for c, key in reused[:1]:
        d = travgen.replay_data(c)
        d["violation"] = f"identifier {key[1]} of node {key[0]} used by two executions"
        ctx.fail("C10:identifier-reused", f"two executions of one test carry the same identifier ({key})", d, True)
    ctx.count(len(cases), sum(1 for c in cases if any(e[0] == "start" and e[3] > 0 for evs in c["run"].events for e in evs)))
    ctx.coverage["retry_traversals"] = len(cases)


def run(ctx, replay=None):
    traversal_tie(ctx, replay)
    if replay and "spec" in replay.get("data", {}):
        return
    replay_part(ctx, replay)
    if replay and "jobs" in replay.get("data", {}):
        return
    rng = ctx.rng
    # ---------------- should_rerun
    cfgs = []
    mts = [None, "0", "1", "2", "3", "5", "-1", "abc", "1.5", " 2 "]
    reruns = [None, "", "fail", "fail error", "fail,error", "fail,error,warn", "pass", "fail error unknown", "failed", "fail, error",
              "unknown fail pass"]
    stops = [None, "", "pass", "fail", "error pass", "bogus", "pass,fail"]
    for dry, flat, cloned in [(False, False, False)] * 6 + [(True, False, False), (False, True, False), (False, False, True)]:
        for rp in (False, True):
            for mt in mts:
                for rr in reruns:
                    for stp in stops:
                        cfgs.append({"dry": dry, "flat": flat, "cloned": cloned, "replay": rp, "max_tries": mt,
                                     "rerun_status": rr, "stop_status": stp})
    rng.shuffle(cfgs)

    def mostly_valid(c):
        return (c["max_tries"] in (None, "2", "3", "5", " 2 ") and c["stop_status"] in (None, "", "pass", "fail", "error pass")
                and c["rerun_status"] in ((None, "", "fail", "fail,error", "fail,error,warn", "pass") if c["replay"] else
                                          (None, "", "fail", "fail error", "pass", "fail error unknown", "unknown fail pass")))
    # structured, mostly-valid inputs first; the malformed stream stays a third of the cases
    valid = [c for c in cfgs if mostly_valid(c) and not (c["dry"] or c["flat"] or c["cloned"])]
    other = [c for c in cfgs if not mostly_valid(c) or c["dry"] or c["flat"] or c["cloned"]]
    cfgs = [x for trio in zip(valid[0::2], valid[1::2], other) for x in trio] + other[len(valid) // 2:]
    if replay:
        d = replay["data"]
        rcases = [(d["cfg"], d["statuses"], d.get("stateful", False))] if "cfg" in d and "finished" not in d else []
        dcases = [(d["cfg"], d["statuses"], d["stateful"], d["finished"], d["scan"])] if "finished" in d else []
        ncases = [tuple(d["run"])] if "run" in d else []
        vcases = [d["tests"]] if "tests" in d else []
    else:
        nr = 9000 if ctx.thorough else 2500
        rcases = []
        for c in cfgs[:nr]:
            k = rng.choice([0, 0, 1, 1, 2, 3, 4])
            sts = [rng.choice(WORDS if rng.random() < 0.4 else ["fail", "error", "unknown", "pass"]) for _ in range(k)]
            rcases.append((c, sts, rng.random() < 0.5))
        dcases = []
        for c in cfgs[nr:nr + (3000 if ctx.thorough else 1000)]:
            k = rng.choice([0, 0, 0, 1, 1, 2, 3])
            sts = [rng.choice(["fail", "error", "unknown", "pass", "warn", "skip"]) for _ in range(k)]
            dcases.append((c, sts, rng.random() < 0.6, rng.random() < 0.4, rng.random() < 0.5))
        ncases = []
        for nprev in range(0, 5):
            for rep in [None] + WORDS[:7]:
                for dur, prev in [(10, []), (10, [8]), (10, [7]), (5, [4]), (25, [20]), (26, [20]), (100, [20, 80]), (101, [20, 80]), (3, [1, 2])]:
                    if len(prev) <= nprev:
                        ncases.append((nprev, rep, dur, prev))
        vcases = []
        names = ["a.vms.vm1.nets.net1", "a.vms.vm1.nets.net2", "b.vms.vm1.nets.net1"]      # the same test on two workers is two tests
        for k in range(0, 4):
            for combo in itertools.product(itertools.product(names[:2] if k > 2 else names, WORDS[:7]), repeat=k):
                if k < 3 or rng.random() < 0.15:
                    vcases.append([list(x) for x in combo])
    # run
    if rcases:
        outs = [impl_rerun(c, s, sf) for c, s, sf in rcases]
        terms = [cpair(cfg_term(c), clist([ST[x] for x in s]), cN(o)) for (c, s, sf), o in zip(rcases, outs)]
        res = coq_failing(ctx, IMPORTS, "rerun_case", terms, ["rerun_corr", "rerun_monitor"], shard=500, tag="rerun")
        ctx.obligation("correspondence:should_rerun", "correspondence", not res["rerun_corr"],
                       f"{len(res['rerun_corr'])} of {len(rcases)} disagree")
        mon = set(res["rerun_monitor"])
        for k in sorted(set(res["rerun_corr"]) | mon)[:3]:
            ctx.fail("C10:should_rerun:" + ("rule" if k in mon else "correspondence"),
                     "should_rerun " + ("violates the retry rule" if k in mon else "differs from Model/Retry.v"),
                     {"cfg": rcases[k][0], "statuses": rcases[k][1], "stateful": rcases[k][2], "impl": outs[k],
                      "obligation": "correspondence:should_rerun"}, k in mon)
        ctx.count(len(rcases), sum(1 for o in outs if o == 1))
        ctx.coverage["should_rerun_answers"] = {"true": outs.count(1), "false": outs.count(0), "ValueError": outs.count(2)}
        ctx.sample({"cfg": rcases[0][0], "statuses": rcases[0][1], "impl": outs[0]})
    if dcases:
        outs = [impl_decide(*c) for c in dcases]
        terms = [cpair(cbool(sf), cfg_term(c), cbool(fin), cbool(scan), clist([ST[x] for x in s]), cpair(cN(o[0]), cbool(o[1])))
                 for (c, s, sf, fin, scan), o in zip(dcases, outs)]
        res = coq_failing(ctx, IMPORTS, "decide_case", terms, ["decide_corr"], shard=500, tag="decide")
        ctx.obligation("correspondence:default_run_decision", "correspondence", not res["decide_corr"],
                       f"{len(res['decide_corr'])} of {len(dcases)} disagree")
        for k in res["decide_corr"][:2]:
            c, s, sf, fin, scan = dcases[k]
            ctx.fail("C10:run_decision:correspondence", "default_run_decision differs from Model/Retry.v",
                     {"cfg": c, "statuses": s, "stateful": sf, "finished": fin, "scan": scan, "impl": outs[k],
                      "obligation": "correspondence:default_run_decision"}, False)
        ctx.count(len(dcases), sum(1 for o in outs if o[0] == 1))
    if ncases:
        outs = [impl_run(*c) for c in ncases]
        terms = [cpair(cnat(n), "None" if rep is None else copt(ST[rep]), cZ(dur), clist([cZ(x) for x in prev]),
                       cpair(cnat(o[0]), "None" if o[1] is None else copt(ST[o[1]]), cbool(o[2])))
                 for (n, rep, dur, prev), o in zip(ncases, outs)]
        res = coq_failing(ctx, IMPORTS, "run_case", terms, ["run_corr"], shard=500, tag="run")
        bad_side = [k for k, o in enumerate(outs) if not o[3]]
        ctx.obligation("correspondence:run_test_node", "correspondence", not res["run_corr"] and not bad_side,
                       f"{len(res['run_corr'])} of {len(ncases)} disagree; {len(bad_side)} without placeholder/prefix restore")
        for k in (res["run_corr"] + bad_side)[:2]:
            # a retry that reuses an identifier, reads another result, or reports success for error/fail is the property failing
            n, rep, dur, prev = ncases[k]
            o = outs[k]
            # ... and so is an execution that leaves no entry (its result, or the pending placeholder when nothing was
            # reported) on the node: the next try would reuse its identifier and the try would not count
            broken = o[0] != n or (rep is not None and o[1] not in (rep, "warn")) or \
                (o[2] != (rep not in (None, "error", "fail"))) or o[4] != 1
            ctx.fail("C10:run_test_node:" + ("rule" if broken else "correspondence"),
                     "run_test_node: " + ("identifier / own result / return value rule violated" if broken else "differs from Model/Retry.v"),
                     {"run": list(ncases[k]), "impl": list(o), "obligation": "correspondence:run_test_node"}, broken)
        ctx.count(len(ncases), sum(1 for c in ncases if c[0] > 0))
    if vcases:
        outs = [impl_verdict(t) for t in vcases]
        interned = {}
        terms = [cpair(clist([cpair(cN(interned.setdefault(n, len(interned) + 1)), ST[s]) for n, s in t]), cbool(o))
                 for t, o in zip(vcases, outs)]
        res = coq_failing(ctx, IMPORTS, "verdict_case", terms, ["verdict_corr", "verdict_monitor"], shard=800, tag="verdict")
        ctx.obligation("correspondence:all_results_ok", "correspondence", not res["verdict_corr"],
                       f"{len(res['verdict_corr'])} of {len(vcases)} disagree")
        mon = set(res["verdict_monitor"])
        for k in sorted(set(res["verdict_corr"]) | mon)[:2]:
            ctx.fail("C10:verdict:" + ("rule" if k in mon else "correspondence"), "all_results_ok " + (
                "is not 'every executed test has an acceptable result'" if k in mon else "differs from Model/Retry.v"),
                {"tests": vcases[k], "impl": outs[k], "obligation": "correspondence:all_results_ok"}, k in mon)
        ctx.count(len(vcases), sum(1 for t in vcases if len({n for n, s in t}) < len(t)))
    ctx.coverage["rule"] = ("should_rerun / default_run_decision: product of inert flags x replay x 10 max_tries spellings x 11 rerun_status x 7 "
                            "stop_status strings (valid, invalid words, wrong delimiter), seed-shuffled slice, with 0-4 previous statuses; "
                            "run_test_node: 0-4 earlier results x every reported status or none x durations around the 1.25 bound "
                            "(exhaustive); all_results_ok: every result list up to length 2 over 3 names x 7 statuses, sampled at length 3.")
    ctx.explanation.append(
        "Theorems in Props/C10.v over Model/Retry.v: should_rerun = RTrue iff tries remain, all statuses in the rerun set, none in the "
        "stop set (any status list); invalid settings give an error on every runnable node; the replay defaults re-execute exactly the "
        "tests without an acceptable previous result, or whose state is missing; uid suffixes of any start/report interleaving are "
        "pairwise distinct; look-up by (name, uid) returns the own result; verdict iff every executed name has an OK result. "
        "Dynamic side (the uid/decision sequence inside a traversal) is additionally exercised by the traversal checks (C03).")
    ctx.assumptions += ["the token split of rerun_status/stop_status (',' under replay for rerun_status, white space otherwise) is "
                        "reproduced by the harness", "int() parsing of max_tries is reproduced by the harness",
                        "STATUSES_MAPPING of avocado (OK = PASS, WARN, SKIP, CANCEL) is transcribed as ok_status and compared through all_results_ok"]
