"""C19 — VMTunnel parameter generation and connects_nodes against Model/Tunnel.v."""
import itertools
import json
from unittest import mock

from harness.common import cN, cnat, cbool, clist, cpair, copt, coq_failing, coq_show, Interner
from harness.props.c18 import dotted, to_int

IMPORTS = "Model.NetAddr Model.Tunnel Check.C19"
LTYPES = ["nic", "internetip", "custom", "bogus"]
RTYPES = ["custom", "externalip", "modeconfig", "bogus"]
PTYPES = ["ip", "dynip", "bogus"]
LCODE = {"NIC": 0, "INTERNETIP": 1, "CUSTOM": 2}
RCODE = {"CUSTOM": 0, "EXTERNALIP": 1, "MODECONFIG": 2}
PCODE = {"IP": 0, "DYNIP": 1}
KCODE = {"NONE": 0, "PUBLIC": 1, "PSK": 2}


def make_network(rng, nvms=3, mismatch=False):
    """A well-formed network: every vm has an internet nic b1 (shared /16) and a lan nic b2
    (own /24, or a lan shared with another vm)."""
    from avocado_i2n.vmnet import VMNetwork
    from virttest.utils_params import Params
    params = Params()
    vms = [f"vm{i + 1}" for i in range(nvms)]
    params["vms"] = " ".join(vms)
    params["nics"] = "b1 b2"
    params["mac"] = "00:00:00:00:00:00"
    params["internet_nic"] = "b1"
    params["lan_nic"] = "b2"
    inet = rng.randrange(1, 200) << 24 | rng.randrange(256) << 16
    lans = []
    for i, vm in enumerate(vms):
        params[f"ip_b1_{vm}"] = dotted(inet + 1 + i)
        params[f"netmask_b1_{vm}"] = "255.255.0.0"
        if lans and rng.random() < 0.3:
            lan = rng.choice(lans)                   # share a lan with an earlier vm
        else:
            lan = (201 + len(lans)) << 24 | rng.randrange(256) << 16 | rng.randrange(256) << 8
            lans.append(lan)
        params[f"ip_b2_{vm}"] = dotted(lan + 1 + i)
        params[f"netmask_b2_{vm}"] = "255.255.255.0"
    mock_vms = {}

    def create_vm(vm_type, target, vm_name, vm_params, bindir):
        vm = mock.MagicMock(name=vm_name)
        vm.name = vm_name
        vm.params = vm_params
        mock_vms[vm_name] = vm
        return vm
    env = mock.MagicMock()
    env.get_vm = lambda name: mock_vms.get(name)
    env.create_vm = create_vm
    return VMNetwork(params, env), lans


def gen_tunnel_case(rng, L, R, P, A):
    net, lans = make_network(rng, 2)
    n1, n2 = net.nodes["vm1"], net.nodes["vm2"]
    custom = {"lnet": dotted(rng.randrange(2 ** 24) << 8), "lmask": "255.255.255.0",
              "rnet": dotted(rng.randrange(2 ** 16) << 16), "rmask": "255.255.0.0"}
    local1 = dict({"type": L, "nic": "lan_nic"}, **custom)
    remote1 = {"type": R, "nic": "lan_nic", "modeconfig_ip": dotted(rng.randrange(2 ** 32))}
    prole = rng.choice(["internet_nic", "internet_nic", "lan_nic"])     # the nic role the two end points peer over
    pnic = {"internet_nic": "b1", "lan_nic": "b2"}[prole]
    peer1 = {"type": P, "nic": prole}
    if A == "None":
        auth = None
    elif A == "psk":
        auth = {"type": "psk", "psk": rng.choice(["secret", "s3", "x"]),
                "left_id": rng.choice(["", "arnold@x", "b"]), "right_id": rng.choice(["", "arnold@x", "c"])}
    else:
        auth = {"type": A}
    lan1 = n1.interfaces["b2"].netconfig
    lan2 = n2.interfaces["b2"].netconfig
    vals = [to_int(lan1.net_ip), to_int(lan1.netmask), to_int(lan2.net_ip), to_int(lan2.netmask),
            to_int(custom["lnet"]), to_int(custom["lmask"]), to_int(custom["rnet"]), to_int(custom["rmask"]),
            to_int(n1.interfaces[pnic].ip), to_int(n2.interfaces[pnic].ip), to_int(remote1["modeconfig_ip"])]
    return net, n1, n2, local1, remote1, peer1, auth, vals


def read_side(p, I):
    def net(kn, km):
        return None if p.get(kn) is None else (to_int(p[kn]), to_int(p[km]))

    def ident(ki, kt):
        return None if p.get(ki) is None else (0 if p[ki] == "" else I("id:" + p[ki]), {"IP": 0, "CUSTOM": 1}[p[kt]])
    return (LCODE.get(p["vpnconn_lan_type"], 3), RCODE.get(p["vpnconn_remote_type"], 3),
            net("vpnconn_lan_net", "vpnconn_lan_netmask"), net("vpnconn_remote_net", "vpnconn_remote_netmask"),
            None if p.get("vpnconn_remote_modeconfig_ip") is None else to_int(p["vpnconn_remote_modeconfig_ip"]),
            PCODE.get(p["vpnconn_peer_type"], 2),
            None if p.get("vpnconn_peer_ip") is None else to_int(p["vpnconn_peer_ip"]),
            {"ALWAYS": 0, "PASSIVE": 1}[p["vpnconn_activation"]],
            ident("vpnconn_psk_own_id", "vpnconn_psk_own_id_type"),
            ident("vpnconn_psk_foreign_id", "vpnconn_psk_foreign_id_type"))


def run_tunnel(rng, L, R, P, A, I):
    from avocado_i2n.vmnet.tunnel import VMTunnel
    net, n1, n2, local1, remote1, peer1, auth, vals = gen_tunnel_case(rng, L, R, P, A)
    acode = {"None": 0, "pubkey": 1, "psk": 2, "none": 3}.get(A, 4)
    atup = (acode, (I("psk:" + auth["psk"]), 0 if auth["left_id"] == "" else I("id:" + auth["left_id"]),
                    0 if auth["right_id"] == "" else I("id:" + auth["right_id"])) if A == "psk" else (0, 0, 0))
    desc = {"local": local1, "remote": remote1, "peer": peer1, "auth": auth, "vals": vals}
    try:
        t = VMTunnel("t1", n1, n2, local1, remote1, peer1, auth)
    except ValueError as e:
        return desc, ((LTYPES.index(L), RTYPES.index(R), PTYPES.index(P)), atup, vals, None), None
    lp, rp = t.left_params, t.right_params
    out = (read_side(lp, I), read_side(rp, I), KCODE[lp["vpnconn_key_type"]],
           None if lp.get("vpnconn_psk") is None else I("psk:" + lp["vpnconn_psk"]))
    assert rp["vpnconn_key_type"] == lp["vpnconn_key_type"] and rp.get("vpnconn_psk") == lp.get("vpnconn_psk")
    return desc, ((LTYPES.index(L), RTYPES.index(R), PTYPES.index(P)), atup, vals, out), t


def side_term(s):
    def o2(x):
        return "None" if x is None else copt(cpair(cN(x[0]), cN(x[1])))

    def o1(x):
        return "None" if x is None else copt(cN(x))
    return cpair(cN(s[0]), cN(s[1]), o2(s[2]), o2(s[3]), o1(s[4]), cN(s[5]), o1(s[6]), cN(s[7]), o2(s[8]), o2(s[9]))


def tunnel_term(c):
    (l, r, p), (a, (x, y, z)), vals, out = c
    o = "None" if out is None else copt(cpair(side_term(out[0]), side_term(out[1]), cN(out[2]),
                                              "None" if out[3] is None else copt(cN(out[3]))))
    return cpair(cpair(cN(l), cN(r), cN(p)), cpair(cN(a), cpair(cN(x), cN(y), cN(z))),
                 clist([cN(v) for v in vals]), o)


# ------------------------------------------------------------------ connects_nodes
def run_connects(rng, I):
    from avocado_i2n.vmnet.tunnel import VMTunnel
    net, lans = make_network(rng, rng.randint(2, 4))
    names = list(net.nodes)
    a, b = rng.sample(names, 2)
    L = rng.choice(["nic", "internetip", "custom"])
    R = rng.choice(["custom", "externalip"])
    # custom nets: sometimes chosen to cover a third vm's lan (forwarded membership), sometimes
    # with a different netmask than the covered interface (the raising case)
    lan_pick = rng.choice(lans)
    r = rng.random()
    if r < 0.4:
        lnet, lmask = dotted(lan_pick), "255.255.255.0"
    elif r < 0.6:
        lnet, lmask = dotted(lan_pick & 0xFFFF0000), "255.255.0.0"
    else:
        lnet, lmask = dotted(rng.randrange(2 ** 24) << 8), "255.255.255.0"
    lan_pick2 = rng.choice(lans)
    rnet, rmask = (dotted(lan_pick2), "255.255.255.0") if rng.random() < 0.5 else (dotted(rng.randrange(2 ** 16) << 16), "255.255.0.0")
    local1 = {"type": L, "nic": "lan_nic", "lnet": lnet, "lmask": lmask, "rnet": rnet, "rmask": rmask}
    t = VMTunnel("t1", net.nodes[a], net.nodes[b], local1, {"type": R, "nic": "lan_nic"},
                 {"type": "ip", "nic": "internet_nic"}, None)
    ncs = list(net.netconfigs.values())

    def endnet(nc):
        if nc is None:
            return (0, (0, 0))
        for k, x in enumerate(ncs):
            if x is nc:
                return (1, (k + 1, 0))
        return (2, (to_int(nc.net_ip), to_int(nc.netmask)))
    ends = ((I("n:" + t.left.name), endnet(t.left_net), t.left_params["vpnconn_lan_type"] == "CUSTOM"),
            (I("n:" + t.right.name), endnet(t.right_net), t.right_params["vpnconn_lan_type"] == "CUSTOM"))
    nodes = []
    for nm in names:
        nd = net.nodes[nm]
        ifs = [(to_int(i.ip), to_int(i.params["netmask"]), [k + 1 for k, x in enumerate(ncs) if x is i.netconfig][0])
               for i in nd.interfaces.values()]
        nodes.append((I("n:" + nm), ifs))
    results = []
    for i, j in itertools.permutations(range(len(names)), 2):
        try:
            res = 1 if t.connects_nodes(net.nodes[names[i]], net.nodes[names[j]]) else 0
        except IndexError:
            res = 2
        results.append((i, j, res))
    desc = {"left": a, "right": b, "local": local1, "remote": R,
            "nodes": {nm: [(i.ip, i.params["netmask"]) for i in net.nodes[nm].interfaces.values()] for nm in names},
            "results": results}
    return desc, (ends, nodes, results)


def conn_term(c):
    ends, nodes, results = c

    def e(x):
        return cpair(cN(x[0]), cpair(cN(x[1][0]), cpair(cN(x[1][1][0]), cN(x[1][1][1]))), cbool(x[2]))
    return cpair(cpair(e(ends[0]), e(ends[1])),
                 clist([cpair(cN(n), clist([cpair(cN(a), cN(b), cN(c)) for a, b, c in ifs])) for n, ifs in nodes]),
                 clist([cpair(cnat(i), cnat(j), cN(r)) for i, j, r in results]))


def run(ctx, replay=None):
    rng = ctx.rng
    I = Interner()
    reps = 6 if ctx.thorough else 2
    auths = ["None", "pubkey", "psk", "none", "bogus"]
    combos = list(itertools.product(LTYPES, RTYPES, PTYPES, auths))
    if replay and "combo" in replay["data"]:
        combos, reps = [tuple(replay["data"]["combo"])], 1
    descs, cases = [], []
    for combo in combos:
        for _ in range(reps):
            d, c, _t = run_tunnel(rng, *combo, I)
            d["combo"] = list(combo)
            descs.append(d)
            cases.append(c)
    terms = [tunnel_term(c) for c in cases]
    res = coq_failing(ctx, IMPORTS, "tunnel_case", terms, ["tunnel_corr", "tunnel_monitor"], shard=200, tag="tunnel")
    ctx.obligation("correspondence:tunnel-params", "correspondence", not res["tunnel_corr"],
                   f"{len(res['tunnel_corr'])} of {len(cases)} cases disagree")
    monf = set(res["tunnel_monitor"])
    reported = set()
    for k in sorted(set(res["tunnel_corr"]) | monf):
        has_input = k in monf
        d = descs[k]
        L, R, P, A = d["combo"]
        if has_input:
            sig = "C19:tunnel:" + ("auth-none-rejected" if A == "none" and cases[k][3] is None and "bogus" not in (L, R, P)
                                   else f"mirror:local={L}" if cases[k][3] is not None else f"reject:{L},{R},{P},{A}")
        else:
            sig = "C19:tunnel:correspondence"
        if sig in reported:
            continue
        reported.add(sig)
        model = coq_show(ctx, IMPORTS, [f"model_tunnel {terms[k]}"])
        ctx.fail(sig, ("tunnel parameters violate the mirror/reject predicate" if has_input
                       else "tunnel parameters: implementation and model disagree") + f" for {d['combo']}",
                 {"combo": d["combo"], "input": d, "impl": cases[k][3], "model": model,
                  "obligation": "correspondence:tunnel-params"}, has_input)
    ctx.count(len(cases), len({tuple(d["combo"]) for d in descs}))
    ctx.sample({"tunnel": descs[len(descs) // 3], "impl": cases[len(descs) // 3][3]})
    ctx.coverage["exhaustive"] = True
    ctx.coverage["product"] = f"{len(LTYPES)}x{len(RTYPES)}x{len(PTYPES)}x{len(auths)} type combinations (incl. one invalid value per dimension) x {reps} random networks"

    if not (replay and "combo" in replay["data"]):
        n_conn = 600 if ctx.thorough else 150
        cd, cc = [], []
        for _ in range(n_conn):
            d, c = run_connects(rng, I)
            cd.append(d)
            cc.append(c)
        cterms = [conn_term(c) for c in cc]
        res = coq_failing(ctx, IMPORTS, "conn_case", cterms, ["conn_corr", "conn_monitor"], shard=100, tag="conn")
        ctx.obligation("correspondence:connects_nodes", "correspondence", not res["conn_corr"],
                       f"{len(res['conn_corr'])} of {len(cc)} cases disagree")
        monf = set(res["conn_monitor"])
        for k in sorted(set(res["conn_corr"]) | monf)[:3]:
            has_input = k in monf
            ctx.fail("C19:connects:" + ("order-dependent" if has_input else "correspondence"),
                     "connects_nodes " + ("depends on the order of the nodes" if has_input else "disagrees with the model"),
                     {"input": cd[k], "obligation": "correspondence:connects_nodes"}, has_input)
        pairs = sum(len(c[2]) for c in cc)
        raising = sum(1 for c in cc for r in c[2] if r[2] == 2)
        connected = sum(1 for c in cc for r in c[2] if r[2] == 1)
        ctx.coverage["connects"] = {"tunnels": len(cc), "ordered_pairs": pairs, "connected": connected, "raising": raising}
        ctx.count(len(cc), 0)
        ctx.sample({"connects": cd[0]})
    ctx.coverage["rule"] = ("the full product local x remote x peer x auth (with one invalid value per dimension and both "
                            "spellings of 'no authentication') over random two-vm networks; connects_nodes on random 2-4 vm "
                            "networks for all ordered node pairs, with custom nets covering / not covering other vms' lans and "
                            "with netmask mismatches (raising). Non-trivial = distinct type combinations.")
    ctx.explanation.append(
        "Theorems C19_net_mirror, C19_peer_mirror, C19_psk_swap, C19_variant_table, C19_reject_iff hold for the whole type "
        "product and all opaque values; C19_connects_sym under the hypothesis that no membership test raises (a netmask "
        "mismatch against a custom end raises IndexError by design; such pairs are counted, not judged). "
        "The model is compared with VMTunnel.__init__ on every combination, so the product is enumerated exhaustively.")
    ctx.assumptions += ["nets/masks/addresses/ids are opaque values in the model", "dict keys 'nic' are always supplied (a missing 'nic' key raises KeyError in _get_peer_variant; not part of the property)"]
