"""C16 — PrefixTree / EdgeRegister against Model/Trie.v, Model/Register.v."""
import json
import os

from harness.common import cN, cnat, cbool, clist, cpair, copt, coq_failing, coq_show, Interner, ROOT

IMPORTS = "Model.Trie Model.Register Check.C16"


# ------------------------------------------------------------------ generators
def gen_names(rng, shaped):
    """Parser-shaped names: a 'set' variant first (never reused later), then a
    duplicate-free sequence of variants with many shared prefixes and infixes."""
    nsets = rng.randint(1, 3)
    alpha = rng.randint(3, 12)
    sets = [f"s{i}" for i in range(nsets)]
    body = [f"v{i}" for i in range(alpha)]
    names = []
    # ill-shaped sets are kept small: every insert walks from EVERY node labelled with the
    # name's first variant, so the structure can grow exponentially there
    count = rng.choice([1, 2, 3, 5, 8, 13, 20, 40, 60]) if shaped else rng.choice([1, 2, 3, 4, 6, 8])
    for _ in range(count):
        if names and rng.random() < 0.5:
            base = list(rng.choice(names))          # share a prefix with an earlier name
            cut = rng.randint(1, len(base))
            name = base[:cut]
        else:
            name = [rng.choice(sets)]
        target = rng.randint(1, 8 if shaped else 5)
        while len(name) < target:
            cand = [v for v in body if v not in name]
            if not cand:
                break
            name.append(rng.choice(cand))
        if not shaped:
            # ill-shaped stream: first variants reused at later positions of OTHER names
            # and repeated variants inside a name (never the name's own first variant:
            # the Python insert does not terminate on those)
            r = rng.random()
            if r < 0.4:
                pool = [n[0] for n in names if n[0] != name[0]] or body
                name.insert(rng.randint(1, len(name)), rng.choice(pool))
            elif r < 0.7 and len(name) > 2:
                name.append(name[rng.randint(1, len(name) - 1)])
            elif r < 0.9:
                name[0] = rng.choice(body + sets)
            name = [name[0]] + [v for v in name[1:] if v != name[0]]
        names.append(name)
    if rng.random() < 0.3 and names:                # re-insertion of a name (last one wins)
        names.append(list(rng.choice(names)))
    rng.shuffle(names)
    queries = []
    for n in names:
        for _ in range(3):
            i = rng.randint(0, len(n) - 1)
            j = rng.randint(i + 1, min(len(n), i + 3))
            queries.append(n[i:j])
    universe = sets + body
    for _ in range(6):
        queries.append([rng.choice(universe) for _ in range(rng.randint(1, 3))])
    uniq = []
    for q in queries:
        if q not in uniq:
            uniq.append(q)
    return {"kind": "trie", "shaped": shaped, "names": names, "queries": uniq[:80], "via": rng.choice(["tree", "graph"])}


def gen_register(rng):
    nk, nw = rng.randint(1, 5), rng.randint(1, 4)
    ops = [[f"k{rng.randrange(nk)}", f"w{rng.randrange(nw)}"] for _ in range(rng.choice([0, 1, 3, 10, 40]))]
    keys = [None] + [f"k{i}" for i in range(nk + 1)]
    ws = [None] + [f"w{i}" for i in range(nw + 1)]
    return {"kind": "reg", "ops": ops, "lookups": [[k, w] for k in keys for w in ws], "wlookups": keys}


# ------------------------------------------------------------------ implementation side
class _Stub:
    def __init__(self, **kw):
        self.__dict__.update(kw)


def run_impl(case):
    from avocado_i2n.cartgraph.node import PrefixTree, EdgeRegister
    if case["kind"] == "trie":
        if case.get("via") == "graph":
            # the same look-ups through the graph's own index (TestGraph.new_nodes / get_nodes_by_name)
            from avocado_i2n.cartgraph import TestGraph
            g = TestGraph()
            for i, n in enumerate(case["names"]):
                g.new_nodes(_Stub(params={"name": ".".join(n)}, idx=i))
            out = []
            for q in case["queries"]:
                s = ".".join(q)
                out.append([[x.idx for x in g.get_nodes_by_name(s)], s in g.nodes_index])
            return out
        tree = PrefixTree()
        nodes = []
        for i, n in enumerate(case["names"]):
            node = _Stub(params={"name": ".".join(n)}, idx=i)
            nodes.append(node)
            tree.insert(node)
        out = []
        for q in case["queries"]:
            s = ".".join(q)
            out.append([[x.idx for x in tree.get(s)], s in tree])
        return out
    reg = EdgeRegister()
    for k, w in case["ops"]:
        reg.register(_Stub(bridged_form=k), _Stub(id=w))
    counters = [reg.get_counters(_Stub(bridged_form=k) if k else None, _Stub(id=w) if w else None)
                for k, w in case["lookups"]]
    workers = [sorted(reg.get_workers(_Stub(bridged_form=k) if k else None)) for k in case["wlookups"]]
    return [counters, workers]


def shared_registers_probe(rng):
    """Visit counters are shared among bridged (equivalent) nodes of different workers:
    checked on real TestNode objects by identity of the four registers and by reading a
    registration made through one member through every other member."""
    from avocado_i2n.cartgraph.node import TestNode
    from virttest.utils_params import Params
    k = rng.randint(2, 5)
    nodes = []
    for i in range(k):
        n = TestNode(str(i + 1), None)
        n._params_cache = Params({"name": f"normal.a.b.vm1.net{i + 1}", "main_restrictions": "normal",
                                  "_name_map_file": {"nets.cfg": f"net{i + 1}"}, "shortname": f"a.b.net{i+1}"})
        n.objects = [object()]
        nodes.append(n)
    # the parser's pattern: each new node bridges with every node already in the class
    for i, n in enumerate(nodes):
        for m in nodes[:i]:
            n.bridge_with_node(m)
    problems = []
    regs = ["_picked_by_setup_nodes", "_dropped_setup_nodes", "_picked_by_cleanup_nodes", "_dropped_cleanup_nodes"]
    for r in regs:
        if len({id(getattr(n, r)) for n in nodes}) != 1:
            problems.append(f"register {r} not shared among {k} bridged nodes")
    other = _Stub(bridged_form="x")
    for i, n in enumerate(nodes):
        n._dropped_setup_nodes.register(other, _Stub(id=f"net{i + 1}"))
    for n in nodes:
        if n._dropped_setup_nodes.get_counters(other) != k:
            problems.append("registration through one member not visible through another")
    for n in nodes:
        if set(n.bridged_nodes) != set(nodes) - {n}:
            problems.append("bridging not symmetric/complete")
    return k, problems


# ------------------------------------------------------------------ Coq side
def case_term(case, out, I):
    if case["kind"] == "trie":
        names = clist([cpair(clist([cN(I(v)) for v in n]), cN(i)) for i, n in enumerate(case["names"])])
        qs = clist([cpair(clist([cN(I(v)) for v in q]),
                          cpair(clist([cN(i) for i in o[0]]), cbool(o[1])))
                    for q, o in zip(case["queries"], out)])
        return cpair(names, qs)
    ops = clist([cpair(cN(I(k)), cN(I(w))) for k, w in case["ops"]])
    lk = clist([cpair(cpair(copt(cN(I(k))) if k else "None", copt(cN(I(w))) if w else "None"), cnat(c))
                for (k, w), c in zip(case["lookups"], out[0])])
    wl = clist([cpair(copt(cN(I(k))) if k else "None", clist([cN(I(w)) for w in ws]))
                for k, ws in zip(case["wlookups"], out[1])])
    return cpair(ops, cpair(lk, wl))


def nontrivial(case, out):
    if case["kind"] == "trie":
        multi = any(len(o[0]) >= 2 for o in out)
        inner = any(o[0] and q[0] not in [n[0] for n in case["names"]] for q, o in zip(case["queries"], out))
        return multi and inner
    return len(case["ops"]) >= 3 and len({tuple(o) for o in case["ops"]}) < len(case["ops"])


def run(ctx, replay=None):
    rng = ctx.rng
    if replay:
        cases = replay["data"]["cases"] if "cases" in replay["data"] else [replay["data"]["case"]]
    else:
        cases = []
        cdir = os.path.join(ROOT, "corpus", "C16")
        for f in sorted(os.listdir(cdir)) if os.path.isdir(cdir) else []:
            cases.append(json.load(open(os.path.join(cdir, f))))
        n_trie = 6000 if ctx.thorough else 1200
        n_ill = 1500 if ctx.thorough else 300
        n_reg = 3000 if ctx.thorough else 600
        cases += [gen_names(rng, True) for _ in range(n_trie)]
        cases += [gen_names(rng, False) for _ in range(n_ill)]
        cases += [gen_register(rng) for _ in range(n_reg)]
    outs = [run_impl(c) for c in cases]
    I = Interner()
    seen, nt = set(), 0
    for c, o in zip(cases, outs):
        key = json.dumps(c, sort_keys=True)
        if key not in seen and nontrivial(c, o):
            nt += 1
        seen.add(key)
    ctx.count(len(cases), nt)
    ctx.coverage["rule"] = ("trie cases: random parser-shaped name sets (1-60 names, alphabet 3-12, length <= 8, shared "
                            "prefixes/infixes, re-insertions), queries = sublists of names + random; a second ill-shaped "
                            "stream validates the model outside the theorem's hypothesis; register cases: random "
                            "register sequences with all (node, worker) lookups incl. unknown keys. Non-trivial: a trie case "
                            "with a query returning >= 2 tests and a hit at an inner position; a register case with a "
                            "repeated registration. Distinct by full case content.")
    kinds = {"trie-shaped": 0, "trie-illshaped": 0, "reg": 0}
    for c in cases:
        kinds["reg" if c["kind"] == "reg" else ("trie-shaped" if c["shaped"] else "trie-illshaped")] += 1
    ctx.coverage["input_distribution"] = kinds
    ctx.coverage["queries_total"] = sum(len(c.get("queries", c.get("lookups"))) for c in cases)
    for c, o in list(zip(cases, outs))[:2] + [(c, o) for c, o in zip(cases, outs) if c["kind"] == "reg"][:1]:
        ctx.sample({"case": c, "impl": o}, limit=3)

    tries = [(i, c, o) for i, (c, o) in enumerate(zip(cases, outs)) if c["kind"] == "trie"]
    regs = [(i, c, o) for i, (c, o) in enumerate(zip(cases, outs)) if c["kind"] == "reg"]
    for group, ty, corr, mon in ((tries, "trie_case", "trie_corr", "trie_monitor"),
                                 (regs, "reg_case", "reg_corr", "reg_monitor")):
        if not group:
            continue
        terms = [case_term(c, o, I) for _, c, o in group]
        res = coq_failing(ctx, IMPORTS, ty, terms, [corr, mon], shard=150, tag=ty)
        ctx.obligation(f"correspondence:{ty}", "correspondence", not res[corr],
                       f"{len(res[corr])} of {len(group)} cases disagree")
        mon_fail = set(res[mon])
        for k in sorted(set(res[corr]) | mon_fail)[:5]:
            gi, c, o = group[k]
            model = coq_show(ctx, IMPORTS, [
                f"let c := {terms[k]} in " +
                ("map (fun q => (get (insert_all (fst c)) (fst q), contains (insert_all (fst c)) (fst q))) (snd c)"
                 if ty == "trie_case" else
                 "map (fun l => get_counters (register_all (fst c)) (fst (fst l)) (snd (fst l))) (fst (snd c))")])
            has_input = k in mon_fail
            site = "PrefixTree" if ty == "trie_case" else "EdgeRegister"
            ctx.fail(f"C16:{site}:{'monitor' if has_input else 'correspondence'}",
                     (f"{site}: implementation output violates the exactness predicate" if has_input else
                      f"{site}: implementation and model disagree (correspondence:{ty})"),
                     {"case": c, "impl": o, "model": model, "interned": dict(I.ids),
                      "obligation": f"correspondence:{ty}"}, has_input)
    # shared visit bookkeeping on real TestNode objects
    probes = 40 if ctx.thorough else 10
    bad = []
    for _ in range(probes):
        k, problems = shared_registers_probe(rng)
        bad += problems
    ctx.obligation("shared-registers-probe", "correspondence", not bad, "; ".join(bad[:3]))
    ctx.coverage["shared_register_probes"] = probes
    if bad:
        ctx.fail("C16:bridge:registers-not-shared", bad[0], {"problems": bad[:10]}, True)
    ctx.explanation.append(
        "Theorems C16_get_exact / C16_get_order_independent / C16_contains_iff_get (Model/Trie.v) and C16_counters / "
        "C16_workers (Model/Register.v) hold for all name lists / register sequences; the models are tied to "
        "PrefixTree and EdgeRegister by evaluating both on the generated cases (multiset comparison of get(), exact "
        "comparison of __contains__, counters and worker sets). The model takes a snapshot of variant_nodes[v0] where "
        "Python iterates the live list; both agree unless a name repeats its own first variant (excluded: the Python "
        "loop does not terminate there). Sharing of registers among bridged nodes is probed on real TestNode objects "
        "(identity of the four registers); its proof belongs to C09's aliasing model.")
