"""C06 - see graph_props.py (verified graph checkers on the real parser's output)."""
from harness.props import graph_props

EXTRA_TARGETS = ["Check/Graph.vo", "Proofs/NonVacuity.vo"]


def run(ctx, replay=None):
    graph_props.run_property(ctx, "C06", replay)
