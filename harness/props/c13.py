"""C13 — SourcedStateBackend / RootSourcedStateBackend (states/pool.py) against Model/Pool.v,
with a stub transport and stub local backend substituted through the class attributes."""
import itertools

from harness.common import cN, cbool, clist, cpair, coq_failing, Interner

IMPORTS = "Model.Pool Check.C13"
SCOPES = ["own", "swarm", "cluster", "shared"]
SCOPE_T = {"own": "Own", "swarm": "Swarm", "cluster": "Cluster", "shared": "Shared"}
OPN = {"show": 0, "get": 1, "set": 2, "unset": 3}

LOG = []
ENV = {}


def make_stub():
    from avocado_i2n.states import pool

    class Transport:
        @classmethod
        def show(cls, params, object=None):
            LOG.append(("TShow", params["show_location"]))
            return list(ENV["mirrors"].get(params["show_location"], []))

        @classmethod
        def get(cls, params, object=None):
            LOG.append(("TGet", params["get_location"]))

        @classmethod
        def set(cls, params, object=None):
            LOG.append(("TSet", params["set_location"]))

        @classmethod
        def unset(cls, params, object=None):
            LOG.append(("TUnset", params["unset_location"]))

        @classmethod
        def compare_chain(cls, state, cache_dir, pool_dir, params):
            LOG.append(("TCompare", pool_dir))
            return ENV["chain_eq"].get(pool_dir, False)

    class Stub(pool.SourcedStateBackend):
        transport = Transport

        @classmethod
        def _show(cls, params, object=None):
            LOG.append(("LShow",))
            return list(ENV["cache"])

        @classmethod
        def _get(cls, params, object=None):
            LOG.append(("LGet",))

        @classmethod
        def _set(cls, params, object=None):
            LOG.append(("LSet",))

        @classmethod
        def _unset(cls, params, object=None):
            LOG.append(("LUnset",))
    return Stub


def impl_pool(case):
    """case: {own:{gw,host,swarm,shared}, scopes:[...], nets:{name:{gw,host}}, srcs:["net:path"...],
              cache:[...], mirrors:{src:[...]}, chain_eq:{src:bool}, state, op}"""
    from virttest.utils_params import Params
    Stub = make_stub()
    p = {"nets_gateway": case["own"]["gw"], "nets_host": case["own"]["host"],
         "swarm_pool": case["own"]["swarm"], "shared_pool": case["own"]["shared"],
         "pool_scope": " ".join(case["scopes"]), f"{case['op']}_location": " ".join(case["srcs"]),
         f"{case['op']}_state": case["state"]}
    for n, v in case["nets"].items():
        p[f"nets_gateway_{n}"] = v["gw"]
        p[f"nets_host_{n}"] = v["host"]
    ENV.update(cache=case["cache"], mirrors=case["mirrors"], chain_eq=case["chain_eq"])
    del LOG[:]
    shown, ok = [], True
    try:
        r = getattr(Stub, case["op"])(Params(p), None)
        if case["op"] == "show":
            shown = list(r)
    except RuntimeError:
        ok = False
    return list(LOG), ok, shown


def pool_term(case, out, I):
    log, ok, shown = out
    own = case["own"]
    G, H, P, S = (lambda x: I("gw:" + x)), (lambda x: I("host:" + x)), (lambda x: I("path:" + x)), (lambda x: I("st:" + x))

    def src_term(k, s):
        net, path = s.split(":")
        nv = case["nets"][net] if net else {"gw": own["gw"], "host": own["host"]}
        return f"(mkSrc {cN(k + 1)} {cN(G(nv['gw']))} {cN(H(nv['host']))} {cN(P(path))})"
    # a source string listed twice is one source for the stubs (they answer by location)
    ids = {}
    for k, s in enumerate(case["srcs"]):
        ids.setdefault(s, k)
    # Params.objects() (library) drops repeated entries of <op>_location, keeping the first
    srcs_t = clist([src_term(ids[s], s) for s in dict.fromkeys(case["srcs"])])
    own_t = f"(mkOwn {cN(G(own['gw']))} {cN(H(own['host']))} {cN(P(own['swarm']))} {cN(P(own['shared'].lstrip(':')))})"
    content_t = (f"(mkContent {clist([cN(S(x)) for x in case['cache']])} "
                 f"{clist([cpair(cN(ids[s] + 1), clist([cN(S(x)) for x in v])) for s, v in case['mirrors'].items() if s in ids])} "
                 f"{clist([cpair(cN(ids[s] + 1), cbool(v)) for s, v in case['chain_eq'].items() if s in ids])})")

    def call_term(c):
        if len(c) == 1:
            return c[0]
        return f"({c[0]} {cN(ids.get(c[1], 998) + 1)})"
    out_t = cpair(clist([call_term(c) for c in log]), cbool(ok), clist([cN(S(x)) for x in shown]))
    return cpair(own_t, clist([SCOPE_T[s] for s in case["scopes"]]), content_t, srcs_t, cN(S(case["state"])),
                 cN(OPN[case["op"]]), out_t)


# ---- root operations
RLOG = []
RENV = {}


def make_root_stub():
    from avocado_i2n.states import pool

    class Ops:
        @classmethod
        def compare(cls, cache_path, pool_path, params):
            img = cache_path.split("/")[-1].replace(".qcow2", "")
            RLOG.append(("TCompareImg", img))
            return RENV["images"][img]

    class Transport:
        ops = Ops

        @classmethod
        def check_root(cls, params, object=None):
            RLOG.append(("TCheckRoot",))
            return RENV["pool_root"]

        @classmethod
        def get_root(cls, params, object=None):
            RLOG.append(("TGetRoot",))

        @classmethod
        def set_root(cls, params, object=None):
            RLOG.append(("TSetRoot",))

        @classmethod
        def unset_root(cls, params, object=None):
            RLOG.append(("TUnsetRoot",))

    class RootStub(pool.RootSourcedStateBackend):
        transport = Transport

        @classmethod
        def _check_root(cls, params, object=None):
            RLOG.append(("LCheckRoot",))
            return RENV["local_root"]

        @classmethod
        def _get_root(cls, params, object=None):
            RLOG.append(("LGetRoot",))

        @classmethod
        def _set_root(cls, params, object=None):
            RLOG.append(("LSetRoot",))

        @classmethod
        def _unset_root(cls, params, object=None):
            RLOG.append(("LUnsetRoot",))
    return RootStub


def impl_root(case):
    from virttest.utils_params import Params
    Stub = make_root_stub()
    imgs = list(case["images"])
    p = {"pool_scope": case["pool_scope"], "object_type": case["object_type"], "vms": "vm1",
         "images": " ".join(imgs), "vms_base_dir": "/vms", "shared_pool": "/pool"}
    for i in imgs:
        p[f"image_name_{i}"] = i
    RENV.update(images=case["images"], pool_root=case["pool_root"], local_root=case["local_root"])
    del RLOG[:]
    ok, val = True, False
    try:
        r = getattr(Stub, case["op"] + "_root")(Params(p), None)
        val = bool(r)
    except RuntimeError:
        ok = False
    return list(RLOG), ok, val


def root_term(case, out, I):
    log, ok, val = out
    ps = case["pool_scope"]
    env = (f"(mkRootEnv {cbool(ps == 'own')} {cbool('own' in ps)} {cbool(ps == 'shared')} {cbool(case['local_root'])} "
           f"{cbool(case['pool_root'])} {cbool(case['object_type'] in ('vms', 'nets/vms'))} "
           f"{clist([cpair(cN(I('img:' + i)), cbool(v)) for i, v in case['images'].items()])})")

    def call_term(c):
        return c[0] if len(c) == 1 else f"({c[0]} {cN(I('img:' + c[1]))})"
    return cpair(env, cN({"check": 0, "get": 1, "set": 2, "unset": 3}[case["op"]]),
                 cpair(clist([call_term(c) for c in log]), cbool(ok), cbool(val)))


# ---- generators
def source_kinds():
    """(net, path) candidates relative to an own side gw=G host=H swarm=/swarm shared=/shared"""
    return [("", "/shared"), ("", "/swarm"), ("", "/other"), ("same", "/swarm"), ("same", "/shared"),
            ("hostB", "/swarm"), ("hostB", "/pool2"), ("gwB", "/swarm"), ("gwB", "/shared"), ("gwhost", "/x")]


NETS = {"same": {"gw": "G", "host": "H"}, "hostB": {"gw": "G", "host": "H2"}, "gwB": {"gw": "G2", "host": "H"},
        "gwhost": {"gw": "G2", "host": "H3"}}


def pool_case(op, scopes, srcs, cache, mirrors, chain_eq, state="st", shared=":/shared"):
    return {"own": {"gw": "G", "host": "H", "swarm": "/swarm", "shared": shared}, "scopes": scopes, "nets": NETS,
            "srcs": srcs, "cache": cache, "mirrors": mirrors, "chain_eq": chain_eq, "state": state, "op": op}


def run(ctx, replay=None):
    rng = ctx.rng
    kinds = [f"{n}:{p}" for n, p in source_kinds()]
    cases, rcases = [], []
    if replay:
        d = replay["data"]
        if "case" in d:
            (rcases if "pool_scope" in d["case"] else cases).append(d["case"])
    else:
        subsets = [[s for k, s in enumerate(SCOPES) if m >> k & 1] for m in range(16)]
        # exhaustive: 16 scope subsets x all source lists up to length 2 (3 in thorough) x placements
        maxlen = 3 if ctx.thorough else 2
        for scopes in subsets:
            for n in range(0, maxlen + 1):
                for srcs in itertools.product(kinds, repeat=n):
                    srcs = list(srcs)
                    for op in ("show", "get", "set", "unset"):
                        if n >= 2 and not ctx.thorough and rng.random() < 0.5:
                            continue
                        cache = ["st"] if rng.random() < 0.5 else ["zz"]
                        mirrors = {s: rng.choice([["st"], ["st", "b"], ["b"], []]) for s in srcs}
                        chain_eq = {s: rng.random() < 0.5 for s in srcs}
                        cases.append(pool_case(op, scopes, srcs, cache, mirrors, chain_eq))
        # all placements of the state for a single source, every scope subset, get
        for scopes in subsets:
            for s in kinds:
                for in_cache, in_pool, eq in itertools.product((True, False), repeat=3):
                    cases.append(pool_case("get", scopes, [s], ["st"] if in_cache else [], {s: ["st"] if in_pool else ["q"]}, {s: eq}))
        for _ in range(6000 if ctx.thorough else 1500):
            n = rng.randint(0, 5)
            srcs = [rng.choice(kinds) for _ in range(n)]
            scopes = rng.sample(SCOPES, rng.randint(0, 4))
            cache = rng.sample(["st", "a", "b"], rng.randint(0, 3))
            mirrors = {s: rng.sample(["st", "a", "b", "c"], rng.randint(0, 4)) for s in srcs}
            chain_eq = {s: rng.random() < 0.5 for s in srcs}
            cases.append(pool_case(rng.choice(list(OPN)), scopes, srcs, cache, mirrors, chain_eq,
                                   shared=rng.choice([":/shared", "/shared", "/swarm"])))
        for ps in ["own", "shared", "own shared", "swarm cluster shared", "swarm", "", "own swarm", "shared own", "known"]:
            for op in ("check", "get", "set", "unset"):
                for ot in ("nets/vms/images", "nets/vms", "vms", "images", "nets"):
                    for lr, pr in itertools.product((True, False), repeat=2):
                        for imgs in ({"i1": True}, {"i1": False}, {"i1": True, "i2": True}, {"i1": True, "i2": False},
                                     {"i1": False, "i2": True}, {"i1": True, "i2": False, "i3": False}):
                            rcases.append({"pool_scope": ps, "object_type": ot, "op": op, "local_root": lr, "pool_root": pr,
                                           "images": imgs})
    I = Interner()
    if cases:
        outs = [impl_pool(c) for c in cases]
        terms = [pool_term(c, o, I) for c, o in zip(cases, outs)]
        res = coq_failing(ctx, IMPORTS, "pool_case", terms, ["pool_corr", "pool_monitor"], shard=500, tag="pool")
        ctx.obligation("correspondence:sourced-backend", "correspondence", not res["pool_corr"],
                       f"{len(res['pool_corr'])} of {len(cases)} cases disagree")
        mon = set(res["pool_monitor"])
        seen = set()
        for k in sorted(set(res["pool_corr"]) | mon):
            has_input = k in mon
            sig = f"C13:{'scope-or-proximity' if has_input else 'correspondence'}:{cases[k]['op']}"
            if sig in seen:
                continue
            seen.add(sig)
            ctx.fail(sig, f"SourcedStateBackend.{cases[k]['op']}: " + (
                "calls violate the scope / closest-source / all-mirrors / refusal rules" if has_input
                else "implementation and Model/Pool.v disagree"),
                {"case": cases[k], "impl": outs[k], "obligation": "correspondence:sourced-backend"}, has_input)
        ctx.count(len(cases), sum(1 for c, o in zip(cases, outs) if len({x[1] for x in o[0] if len(x) > 1}) >= 1 and len(set(c["srcs"])) >= 2))
        ctx.sample({"case": cases[len(cases) // 2], "impl": outs[len(cases) // 2]})
        hist = {}
        for c in cases:
            key = f"{c['op']}/{len(c['srcs'])}src"
            hist[key] = hist.get(key, 0) + 1
        ctx.coverage["input_histogram"] = hist
    if rcases:
        routs = [impl_root(c) for c in rcases]
        rterms = [root_term(c, o, I) for c, o in zip(rcases, routs)]
        res = coq_failing(ctx, IMPORTS, "root_case", rterms, ["root_corr", "root_monitor"], shard=600, tag="root")
        ctx.obligation("correspondence:root-sourced-backend", "correspondence", not res["root_corr"],
                       f"{len(res['root_corr'])} of {len(rcases)} cases disagree")
        mon = set(res["root_monitor"])
        seen = set()
        for k in sorted(set(res["root_corr"]) | mon):
            has_input = k in mon
            sig = f"C13:root:{'rule' if has_input else 'correspondence'}:{rcases[k]['op']}"
            if sig in seen:
                continue
            seen.add(sig)
            ctx.fail(sig, f"RootSourcedStateBackend.{rcases[k]['op']}_root: " + (
                "calls violate the scope / refusal / re-download rules" if has_input else "implementation and Model/Pool.v disagree"),
                {"case": rcases[k], "impl": routs[k], "obligation": "correspondence:root-sourced-backend"}, has_input)
        ctx.count(len(rcases), sum(1 for o in routs if any(x[0].startswith("T") for x in o[0])))
    ctx.coverage["exhaustive"] = not replay
    ctx.coverage["rule"] = ("sources drawn from 10 kinds (own net / same host / other host / other gateway x shared, swarm and other paths); "
                            "all 16 pool_scope subsets x every source list up to length 2 (quick; half of the length-2 lists sampled) or 3 "
                            "(thorough) x the four operations; every placement of the state for single sources; random lists up to length 5 "
                            "with duplicates and shared_pool spelled with and without the leading colon; root operations: 9 pool_scope strings x 4 "
                            "operations x 5 object types x root presence x 6 image comparison outcomes (exhaustive). Non-trivial: at least two "
                            "distinct sources and some transport call.")
    ctx.explanation.append(
        "Theorems in Props/C13.v over Model/Pool.v (any number of sources, any content): transport calls only at permitted sources and "
        "local changes only with own enabled; get uses a source of maximal proximity among the permitted ones (the sort is proved to be a "
        "stable descending permutation); set/unset reach exactly the permitted mirrors; a download happens iff the closest permitted "
        "source has the state and the local copy is missing or differs; shown states come from the cache (own enabled) or a permitted "
        "mirror; set without own and without the local state, and set_root to the shared pool without a local root, are refused before any "
        "transport. Compared call by call with the real classes (stub transport / stub local backend via class attributes).")
    ctx.assumptions += ["the stubs answer by location string: a location listed twice is one mirror",
                        "show's result is compared as a set (the code returns list(set(...)))",
                        "Params.objects() removes repeated locations (library behaviour mirrored by the harness when building the model's source list)"]
