"""C14 — TransferOps local/link operations against Model/Transfer.v on real temporary
directories, and the image_lock protocol observed on real processes (with kills and time-outs)."""
import itertools
import multiprocessing
import os
import shutil
import signal
import time

from harness.common import cN, cnat, cbool, clist, cpair, coq_failing

IMPORTS = "Model.Transfer Check.C14"
OPS = ["download_local", "upload_local", "delete_local", "download_link", "upload_link"]
PATHS = {"c": 1, "p": 2, "q": 3}
CONTENT = {"A": 1, "B": 2, "": 3}


def materialise(root, state):
    """state: {name: None | ('file', content) | ('link', target name)}"""
    for name in ("p", "q", "c"):
        path = os.path.join(root, name)
        spec = state.get(name)
        if spec is None:
            continue
        if spec[0] == "file":
            with open(path, "w") as f:
                f.write(spec[1])
        else:
            os.symlink(os.path.join(root, spec[1]), path)


def observe(root):
    out = {}
    for name in ("c", "p", "q"):
        path = os.path.join(root, name)
        if os.path.islink(path):
            out[name] = ("link", os.path.basename(os.readlink(path)))
        elif os.path.exists(path):
            out[name] = ("file", open(path).read())
        else:
            out[name] = None
    return out


def impl_seq(root, state, op):
    from avocado_i2n.states import pool
    from virttest.utils_params import Params
    shutil.rmtree(root, ignore_errors=True)
    os.makedirs(root)
    materialise(root, state)
    c, p = os.path.join(root, "c"), os.path.join(root, "p")
    params = Params({"update_pool_timeout": "2"})
    raised = False
    try:
        if op == "delete_local":
            pool.TransferOps.delete_local(p, params)
        else:
            getattr(pool.TransferOps, op)(c, p, params)
    except Exception:
        raised = True
    return raised, observe(root)


def fs_term(state):
    items = []
    for name, spec in state.items():
        if spec is None:
            continue
        node = f"File {cN(CONTENT.get(spec[1], 9))}" if spec[0] == "file" else f"Link {cN(PATHS[spec[1]])}"
        items.append(cpair(cN(PATHS[name]), f"({node})"))
    return clist(items)


# ----------------------------------------------------------------------------- processes
def child(idx, root, script, timeout, hold, logpath, delay=0.0):
    """runs in a forked process: a script of operations on ONE pool file with the lock calls logged"""
    from avocado_i2n.states import pool
    from virttest.utils_params import Params
    import fcntl as real_fcntl
    log = open(logpath, "a", buffering=1)

    def emit(kind):
        log.write(f"{time.monotonic_ns()} {idx} {kind}\n")

    class Fcntl:
        LOCK_EX, LOCK_NB, LOCK_UN = real_fcntl.LOCK_EX, real_fcntl.LOCK_NB, real_fcntl.LOCK_UN

        @staticmethod
        def lockf(fd, flags):
            if flags & real_fcntl.LOCK_UN:
                emit("rel")                   # still inside the lock
                return real_fcntl.lockf(fd, flags)
            r = real_fcntl.lockf(fd, flags)   # raises when somebody else holds it
            emit("acq")                       # already inside the lock
            return r
    pool.fcntl = Fcntl
    real_copy, real_unlink, real_sleep = shutil.copy, os.unlink, time.sleep

    def slow_copy(a, b):
        emit("in")
        real_sleep(hold)
        r = real_copy(a, b)
        emit("out")
        return r

    class Shutil:
        copy = staticmethod(slow_copy)

    def slow_unlink(path):
        # the deletion of the pool file is part of the critical section as well
        if path.endswith(os.sep + "img"):
            emit("in")
            real_sleep(hold)
            r = real_unlink(path)
            emit("out")
            return r
        return real_unlink(path)

    class Os:
        def __getattr__(self, name):
            return getattr(os, name)
    osmod = Os()
    osmod.unlink = slow_unlink
    pool.os = osmod

    class Time:
        @staticmethod
        def sleep(t):
            real_sleep(0.03)      # the 1 s retry period, shortened
    pool.shutil = Shutil
    pool.time = Time
    # comparing the cache with the pool file reads the pool file: part of the transfer, hence of the critical section
    real_crypto = pool.crypto

    def slow_hash(path, *a, **kw):
        if path.endswith(os.sep + "img"):
            emit("in")
            real_sleep(hold / 4)
            r = real_crypto.hash_file(path, *a, **kw)
            emit("out")
            return r
        return real_crypto.hash_file(path, *a, **kw)

    class Crypto:
        def __getattr__(self, name):
            return getattr(real_crypto, name)
    cryptomod = Crypto()
    cryptomod.hash_file = slow_hash
    pool.crypto = cryptomod
    params = Params({"update_pool_timeout": str(timeout)})
    cache = os.path.join(root, f"cache{idx}")
    poolf = os.path.join(root, "pool", "img")
    if delay:
        real_sleep(delay)
    for k, op in enumerate(script):
        try:
            if op == "up":
                with open(cache, "w") as f:
                    f.write(f"{idx}-{k}")
                pool.TransferOps.upload_local(cache, poolf, params)
            elif op == "down":
                pool.TransferOps.download_local(cache, poolf, params)
            elif op == "del":
                pool.TransferOps.delete_local(poolf, params)
            elif op == "boom":
                def exploding(a, b):
                    emit("in")
                    raise OSError("injected copy failure")
                Shutil.copy = staticmethod(exploding)
                with open(cache, "w") as f:
                    f.write(f"x{idx}-{k}")
                try:
                    pool.TransferOps.upload_local(cache, poolf, params)
                finally:
                    Shutil.copy = staticmethod(slow_copy)
        except RuntimeError as e:
            if "took more than" in str(e):
                emit("timeout")
            else:
                emit("err")
        except Exception:
            emit("err")
    emit("end")
    os._exit(0)


def run_scenario(root, nproc, scripts, timeout, hold, kill=None, delays=None):
    shutil.rmtree(root, ignore_errors=True)
    os.makedirs(os.path.join(root, "pool"))
    with open(os.path.join(root, "pool", "img"), "w") as f:
        f.write("seed")
    logpath = os.path.join(root, "events.log")
    open(logpath, "w").close()
    ctxmp = multiprocessing.get_context("fork")
    procs = [ctxmp.Process(target=child, args=(i, root, scripts[i], timeout, hold, logpath, (delays or [0] * nproc)[i])) for i in range(nproc)]
    for p in procs:
        p.start()
    killed = {}
    if kill is not None:
        victim, delay = kill
        time.sleep(delay)
        t_before = time.monotonic_ns()
        if procs[victim].is_alive():
            os.kill(procs[victim].pid, signal.SIGKILL)
            procs[victim].join()
            killed[victim] = t_before
    for p in procs:
        p.join(60)
    events = []
    for line in open(logpath):
        parts = line.split()
        if len(parts) == 3:
            events.append((int(parts[0]), int(parts[1]), parts[2]))
    for victim, t_before in killed.items():
        last = max([t for t, i, k in events if i == victim] + [t_before])
        events.append((last + 1, victim, "kill"))
    events.sort()
    return events


def trace_term(events):
    out = []
    for t, i, k in events:
        if k == "acq":
            out.append(f"OAcq {cnat(i)}")
        elif k == "rel":
            out.append(f"ORel {cnat(i)}")
        elif k == "kill":
            out.append(f"OKill {cnat(i)}")
        elif k == "timeout":
            out.append(f"OTimeout {cnat(i)}")
    return clist(out)


def critical_sections_overlap(events):
    """direct monitor: 'in'..'out' intervals (the copy itself) of different processes must not overlap"""
    inside = None
    for t, i, k in events:
        if k == "in":
            if inside is not None and inside != i:
                return True
            inside = i
        elif k in ("out", "rel", "kill", "err") and inside == i:
            inside = None
    return False


def run(ctx, replay=None):
    rng = ctx.rng
    root = os.path.join(ctx.work, "fs")
    # ---- sequential semantics: exhaustive over a small file-system state space
    cstates = [None, ("file", "A"), ("file", "B"), ("file", ""), ("link", "p"), ("link", "q")]
    pstates = [None, ("file", "A"), ("file", "B"), ("file", "")]
    qstates = [None, ("file", "A"), ("file", "B")]
    cases = []
    if replay:
        if "state" in replay["data"]:
            cases = [(replay["data"]["state"], replay["data"]["op"])]
    else:
        for c, p, q, op in itertools.product(cstates, pstates, qstates, OPS):
            cases.append(({"c": c, "p": p, "q": q}, op))
    if cases:
        outs = [impl_seq(root, s, op) for s, op in cases]
        terms = [cpair(clist([cN(1), cN(2), cN(3)]), fs_term(s), cN(OPS.index(op)), cN(1), cN(2),
                       cpair(cbool(o[0]), fs_term(o[1]))) for (s, op), o in zip(cases, outs)]
        res = coq_failing(ctx, IMPORTS, "seq_case", terms, ["seq_corr", "seq_monitor"], shard=400, tag="seq")
        ctx.obligation("correspondence:transfer-operations", "correspondence", not res["seq_corr"],
                       f"{len(res['seq_corr'])} of {len(cases)} cases disagree")
        mon = set(res["seq_monitor"])
        seen = set()
        for k in sorted(set(res["seq_corr"]) | mon):
            has_input = k in mon
            sig = f"C14:{cases[k][1]}:{'data' if has_input else 'correspondence'}"
            if sig in seen:
                continue
            seen.add(sig)
            ctx.fail(sig, f"TransferOps.{cases[k][1]}: " + ("source changed / destination differs / data replaced by a link / link uploaded"
                                                            if has_input else "implementation and Model/Transfer.v disagree"),
                     {"state": cases[k][0], "op": cases[k][1], "impl_raised": outs[k][0], "impl_after": outs[k][1],
                      "obligation": "correspondence:transfer-operations"}, has_input)
        ctx.count(len(cases), sum(1 for (s, op), o in zip(cases, outs) if not o[0] and o[1] != {k: v for k, v in s.items()}))
        ctx.coverage["exhaustive"] = not replay
        ctx.sample({"state": cases[7][0], "op": cases[7][1], "impl": outs[7]} if len(cases) > 7 else {"state": cases[0][0]})
    # ---- lock protocol on real processes
    scenarios = []
    if replay and "scenario" in replay["data"]:
        scenarios = [replay["data"]["scenario"]]
    elif not replay:
        n = 24 if ctx.thorough else 8
        for k in range(n):
            nproc = rng.randint(2, 8 if ctx.thorough else 5)
            scripts = [[rng.choice(["up", "up", "down", "del", "up", "boom"]) for _ in range(rng.randint(1, 4))] for _ in range(nproc)]
            kind = k % 4
            sc = {"nproc": nproc, "scripts": scripts, "timeout": 300, "hold": rng.choice([0.005, 0.02, 0.04]), "kill": None}
            if kind == 1:
                sc["kill"] = [rng.randrange(nproc), rng.choice([0.01, 0.03, 0.06])]
                sc["hold"] = 0.05
            elif kind == 2:      # a long holder and short time-outs: waiting must raise, not proceed
                sc["timeout"] = rng.choice([1, 2])
                sc["hold"] = 0.25
                sc["scripts"] = [["up"]] + [[rng.choice(["up", "down"])] for _ in range(nproc - 1)]
            scenarios.append(sc)
        # a deletion while others wait for the lock and more arrive afterwards: the lock must stay ONE lock
        for hold in ([0.08, 0.12, 0.05] if ctx.thorough else [0.08, 0.12]):
            scenarios.append({"nproc": 4, "scripts": [["del"], ["up", "down"], ["up"], ["down", "up"]], "timeout": 300, "hold": hold,
                              "kill": None, "delays": [0, hold * 0.3, hold * 1.4, hold * 1.8]})
    traces = []
    for sc in scenarios:
        ev = run_scenario(root, sc["nproc"], sc["scripts"], sc["timeout"], sc["hold"], sc["kill"], sc.get("delays"))
        traces.append(ev)
    if traces:
        terms = [trace_term(ev) for ev in traces]
        res = coq_failing(ctx, IMPORTS, "lock_case", terms, ["lock_accept"], shard=50, tag="lock")
        overlaps = [k for k, ev in enumerate(traces) if critical_sections_overlap(ev)]
        unfinished = [k for k, (sc, ev) in enumerate(zip(scenarios, traces))
                      if sum(1 for t, i, kk in ev if kk == "end") + (1 if sc["kill"] and any(kk == "kill" for t, i, kk in ev) else 0) < sc["nproc"]]
        ctx.obligation("correspondence:lock-traces-accepted", "correspondence", not res["lock_accept"] and not unfinished,
                       f"{len(res['lock_accept'])} of {len(traces)} traces rejected by the protocol model; {len(unfinished)} scenarios with a stuck process")
        ctx.obligation("monitor:no-overlapping-transfers", "monitor", not overlaps, f"{len(overlaps)} traces with overlapping copies")
        for k in sorted(set(res["lock_accept"]) | set(overlaps) | set(unfinished))[:2]:
            has_input = True     # a rejected real trace IS two processes inside at once / a lock not released / entry after a timeout
            ctx.fail("C14:lock:" + ("overlap" if k in overlaps or k in res["lock_accept"] else "stuck"),
                     "image_lock: transfers of the same pool file overlapped, a lock was not released, or a process did not finish",
                     {"scenario": scenarios[k], "events": [list(e) for e in traces[k]][:200], "obligation": "correspondence:lock-traces-accepted"},
                     has_input)
        contended = sum(1 for ev in traces if any(k == "acq" for t, i, k in ev) and len({i for t, i, k in ev if k == "acq"}) >= 2)
        ctx.count(len(traces), contended)
        ctx.coverage["lock_scenarios"] = {"total": len(traces), "with_kill": sum(1 for s in scenarios if s["kill"]),
                                          "with_short_timeout": sum(1 for s in scenarios if s["timeout"] < 300),
                                          "timeouts_observed": sum(1 for ev in traces for t, i, k in ev if k == "timeout"),
                                          "injected_copy_failures": sum(s.count("boom") for sc in scenarios for s in sc["scripts"]),
                                          "acquisitions": sum(1 for ev in traces for t, i, k in ev if k == "acq")}
    ctx.coverage["rule"] = ("sequential: every combination of cache in {absent, file A, file B, empty file, link->pool, link->other}, pool in {absent, A, B, empty}, "
                            "other in {absent, A, B} x the five local/link operations on real files (exhaustive); lock: 2-8 forked processes "
                            "running upload/download/delete scripts on one pool file with slowed copies, a SIGKILL at a random moment, injected "
                            "exceptions inside the copy, and 1-2 attempt time-outs against a long holder; acquisitions/releases are logged "
                            "inside the locked region with a system-wide monotonic clock. Non-trivial: traces in which >= 2 processes acquired.")
    ctx.explanation.append(
        "Theorems in Props/C14.v: exactness of download/upload/delete, failing operations change nothing, link mode never replaces "
        "data nor uploads a link (all file-system states with one-level links); protocol LTS: mutual exclusion, release on leaving or "
        "dying, no entry after a time-out, entry only through a successful attempt on a free lock (any number of processes, any "
        "interleaving). PARTIAL by nature: that fcntl.lockf excludes processes and dies with them is the LTS's definition of TryLock / "
        "Crash; the real behaviour is exercised here (traces of real processes must be accepted by the protocol model), not proved.")
    ctx.assumptions += ["fcntl.lockf semantics (kernel)", "md5 equality stands for content equality", "links are one level deep"]
