"""C20 - Manu.run's setup chain against Model/Tools.v, and the per-vm / per-worker manual tools run for real
(selftests' job seam) with the 'exactly once per selected vm and compatible worker' rule evaluated in Coq."""
import itertools
from unittest import mock

from harness.common import cN, cnat, cbool, clist, cpair, coq_failing, Interner
from harness import toolseam

IMPORTS = "Model.Tools Check.C20"
PER_VM_TOOLS = ["check", "get", "set", "unset", "push", "pop", "clean", "collect", "create"]
PER_WORKER_TOOLS = ["boot", "shutdown"]
ACTION = {"clean": "unset", "collect": "get", "create": "set"}
all_vms = {"vm1": "only CentOS\n", "vm2": "only Win10\n", "vm3": "only Ubuntu\n"}


def impl_chain(outs, names=None):
    """Manu.run with stub steps: returns (call order, return code). `names[k]` is the step name used at position k of
    the chain (default: all different); a name may occur several times - each call of it takes the next outcome"""
    from avocado_i2n.plugins import manu
    order = []
    names = names or list(range(len(outs)))
    positions = {}
    for k, nm in enumerate(names):
        positions.setdefault(nm, []).append(k)

    class Steps:
        @staticmethod
        def load_addons_tools():
            pass

    def make(nm):
        calls = {"n": 0}

        def step(config, tag=""):
            ks = positions[nm]
            k = ks[min(calls["n"], len(ks) - 1)]
            calls["n"] += 1
            order.append(k)
            if outs[k] == "raise":
                raise RuntimeError(f"step {k} exploded")
            return outs[k]
        return step
    for nm in positions:
        setattr(Steps, f"s{nm}", staticmethod(make(nm)))
    config = {"i2n.manu.params": ["setup=" + ",".join(f"s{nm}" for nm in names)] if outs else ["setup="]}
    with mock.patch("avocado_i2n.plugins.manu.intertest", Steps), mock.patch("avocado_i2n.plugins.manu.LOG_UI", mock.MagicMock()):
        code = manu.Manu().run(config)
    return order, code


def out_term(o):
    if o is None:
        return "RetNone"
    if o == "raise":
        return "Raised"
    return f"(RetInt {cN(o)})"


USER_PARAMS = {"unset": [{"unset_mode": "fa"}, {"unset_mode": "ra"}], "get": [{"get_mode": "ia"}, {"get_mode": "ra"}],
               "set": [{"set_mode": "fa"}, {"set_mode": "af"}], "check": [{"check_mode": "rr"}], "push": [{"push_mode": "ff"}],
               "pop": [{"pop_mode": "ra"}], "clean": [{"custom_flag": "on"}], "collect": [{"custom_flag": "on"}], "create": [{"custom_flag": "on"}], "boot": [{"custom_flag": "on"}], "shutdown": [{"custom_flag": "on"}]}


def impl_tool(tool, vm_strs, nets, rng, extra=None, failing=False):
    from avocado_i2n import intertest_setup
    config = toolseam.base_config(vm_strs, nets, extra=extra)
    # failing = True: every test of the step fails; failing = "one": only the tests of the FIRST worker fail (the step has
    # to report failure all the same: each (vm, worker) node is a test of its own)
    first = nets.split()[0]
    status_of = None
    if failing == "one":
        status_of = lambda node: "FAIL" if node.params.get("nets") == first else "PASS"
    elif failing:
        status_of = lambda node: "FAIL"
    with toolseam.Recorder(rng, status_of=status_of) as rec:
        try:
            ret = getattr(intertest_setup, tool)(config, tag="0m0")
        except Exception as e:
            ret = repr(e)[:120]
    return ret, rec.calls


def impl_real_chain(tools, vm_strs, nets, rng):
    """the steps of a chain as Manu.run runs them: one after the other on ONE shared config; returns per step the multiset of
    (worker, vms, vm_action) of the nodes it executed"""
    from avocado_i2n import intertest_setup
    config = toolseam.base_config(vm_strs, nets)
    per_step = []
    with toolseam.Recorder(rng) as rec:
        for k, tool in enumerate(tools):
            before = len(rec.calls)
            try:
                getattr(intertest_setup, tool)(config, tag=f"0m{k}")
            except Exception as e:
                per_step.append([("error", repr(e)[:80], "")])
                continue
            per_step.append(sorted((c[1], c[3].get("vms", ""), c[3].get("vm_action", "")) for c in rec.calls[before:] if c[0] == "run"))
    return per_step


def real_chain_part(ctx, rng, replay=None):
    """C20 'with the step's parameters applied' inside chains: every step of a chain of real tools executes what the same step
    executes when it is run alone on a fresh configuration"""
    tools_all = PER_VM_TOOLS[:6] + PER_WORKER_TOOLS + ["clean"]
    if replay:
        chains = [(replay["data"]["real_chain"], replay["data"]["vms"], replay["data"]["nets"])]
    else:
        chains = [(["unset", "shutdown"], ["vm1"], "net1"), (["get", "unset", "check", "boot"], ["vm1", "vm3"], "net1 net2")]
        for _ in range(12 if ctx.thorough else 3):
            chains.append(([rng.choice(tools_all) for _ in range(rng.randint(2, 4))], rng.choice([["vm1"], ["vm1", "vm3"], ["vm2"]]),
                           rng.choice(["net1", "net1 net2"])))
    alone = {}
    bad = []
    for tools, sel, nets in chains:
        vm_strs = {v: all_vms[v] for v in sel}
        got = impl_real_chain(tools, vm_strs, nets, rng)
        for k, tool in enumerate(tools):
            key = (tool, tuple(sel), nets)
            if key not in alone:
                alone[key] = impl_real_chain([tool], vm_strs, nets, rng)[0]
            if got[k] != alone[key]:
                bad.append({"real_chain": tools, "vms": sel, "nets": nets, "step": k, "tool": tool, "in_chain": got[k], "alone": alone[key]})
                break
    ctx.obligation("monitor:chain-steps-behave-as-alone", "monitor", not bad,
                   f"{len(bad)} of {len(chains)} chains of real tools contain a step that executes something else than when run alone")
    for b in bad[:1]:
        ctx.fail("C20:chain-step-differs-from-step-alone",
                 f"in the chain {' '.join(b['real_chain'])} the step {b['tool']} (position {b['step']}) executed {b['in_chain']} instead of {b['alone']}",
                 b, True)
    ctx.count(len(chains), sum(1 for c in chains if len(c[0]) > 2))


def run(ctx, replay=None):
    rng = ctx.rng
    if replay and "real_chain" in replay["data"]:
        real_chain_part(ctx, rng, replay)
        return
    # ---- chains
    outs_pool = [None, 0, 1, 2, "raise"]
    chains = []
    if replay and "outs" in replay["data"]:
        chains = [replay["data"]["outs"]]
    elif not replay:
        for n in range(0, 4):
            chains += [list(c) for c in itertools.product(outs_pool, repeat=n)]
        for _ in range(60 if ctx.thorough else 20):
            chains.append([rng.choice(outs_pool + [None, 0, 0]) for _ in range(rng.randint(4, 9))])
    names_of = {}
    if not replay:
        # chains that use a step more than once (boot,check,shutdown,pop,boot)
        for _ in range(40 if ctx.thorough else 12):
            n = rng.randint(2, 7)
            c = [rng.choice(outs_pool + [None, 0, 0]) for _ in range(n)]
            nm = [rng.randrange(max(1, n - 1 - rng.randrange(2))) for _ in range(n)]
            names_of[len(chains)] = nm
            chains.append(c)
        names_of[len(chains)] = [0, 1, 0]
        chains.append([0, 0, 0])
    elif replay and "outs" in replay["data"] and replay["data"].get("names"):
        names_of[0] = replay["data"]["names"]
    if chains:
        results = [impl_chain(c, names_of.get(k)) for k, c in enumerate(chains)]
        terms = [cpair(clist([out_term(o) for o in c]), cpair(clist([cnat(k) for k in order]), cN(code)))
                 for c, (order, code) in zip(chains, results)]
        res = coq_failing(ctx, IMPORTS, "chain_case", terms, ["chain_corr"], shard=300, tag="chain")
        ctx.obligation("correspondence:Manu.run-chain", "correspondence", not res["chain_corr"],
                       f"{len(res['chain_corr'])} of {len(chains)} chains disagree")
        for k in res["chain_corr"][:2]:
            order, code = results[k]
            broken = order != list(range(len(chains[k]))) or (code == 1) != any(o not in (None, 0) for o in chains[k])
            ctx.fail("C20:chain:" + ("order-or-code" if broken else "correspondence"),
                     "Manu.run: " + ("steps skipped / reordered or wrong return code" if broken else "differs from Model/Tools.v"),
                     {"outs": chains[k], "names": names_of.get(k), "impl": [order, code], "obligation": "correspondence:Manu.run-chain"}, broken)
        ctx.count(len(chains), sum(1 for c in chains if any(o not in (None, 0) for o in c[:-1]) and len(c) > 1))
        ctx.sample({"outs": chains[-1], "impl": results[-1]})
    # ---- the tools
    I = Interner()
    selections = [["vm1"], ["vm2"], ["vm1", "vm3"], ["vm1", "vm2", "vm3"]]
    netsets = ["net1", "net1 net2", "net1 net2 net3", "cluster1.net6 cluster1.net7"]
    runs = []
    if replay and "tool" in replay["data"]:
        d = replay["data"]
        runs = [(d["tool"], d["vms"], d["nets"])]
    elif not replay:
        combos = [(t, s, n) for t in PER_VM_TOOLS + PER_WORKER_TOOLS for s in selections for n in netsets]
        rng.shuffle(combos)
        runs = combos[: (len(combos) if ctx.thorough else 14)]
        # every tool at least once in the quick tier
        have = {t for t, s, n in runs}
        runs += [(t, ["vm1", "vm3"], "net1 net2") for t in PER_VM_TOOLS + PER_WORKER_TOOLS if t not in have]
    # a worker whose restrictions exclude the selected vm variant (net5 supports no Win7 vm2) at every position of the
    # worker list: the step still acts once on every COMPATIBLE worker
    restricted = {}
    if not replay:
        orders = ["net1 net5 net2", "net5 net1 net2", "net1 net2 net5"]
        picks = [(t, o) for t in ("boot", "shutdown", "get", "unset") for o in orders]
        rng.shuffle(picks)
        for t, o in picks[: (len(picks) if ctx.thorough else 4)]:
            restricted[len(runs)] = {"vm2": "only Win7\n"}
            runs.append((t, ["vm2"], o))
    elif replay and replay["data"].get("vm_strs"):
        restricted[0] = replay["data"]["vm_strs"]
    terms, obs_all, modes = [], [], []
    for ridx, (tool, sel, nets) in enumerate(runs):
        extra = rng.choice(USER_PARAMS[tool]) if rng.random() < 0.6 else None
        failing = rng.random() < 0.35
        if failing and len(nets.split()) > 1 and rng.random() < 0.5:
            failing = "one"
        if replay and "tool" in replay["data"] and "failing" in replay["data"]:
            extra, failing = replay["data"].get("extra"), replay["data"]["failing"]
        modes.append((extra, failing))
        vm_strs = restricted.get(ridx) or {v: all_vms[v] for v in sel}
        ret, calls = impl_tool(tool, vm_strs, nets, rng, extra, failing)
        if ridx in restricted:
            nets = " ".join(w for w in nets.split() if w != "net5")      # the workers the step has to act on
        per_vm = tool in PER_VM_TOOLS
        obs, wrong = [], []
        # a step whose tests fail must report failure to the chain (Manu.run counts anything but None / 0)
        if failing and any(c[0] == "run" for c in calls) and ret in (0, None):
            wrong.append(f"every test of the step failed but the step returned {ret!r}")
        if not failing and ret not in (0, None):
            wrong.append(f"all tests passed but the step returned {ret!r}")
        for c in calls:
            if c[0] != "run":
                continue
            p = c[3]
            # the step's (user given) parameters must be what each selected vm and its images effectively get
            if extra:
                from virttest.utils_params import Params
                pp = Params(p)
                for vm in pp.objects("vms"):
                    vmp = pp.object_params(vm)
                    views = [vmp.object_params("vms")] + [vmp.object_params(img).object_params("images") for img in vmp.objects("images")]
                    for k, v in extra.items():
                        if any(view.get(k) != v for view in views):
                            wrong.append(f"user parameter {k}={v} is not what {vm} effectively gets: {[view.get(k) for view in views]}")
            if p.get("nets") != c[1]:
                wrong.append(f"node of {p.get('nets')} run by {c[1]}")
            if per_vm and p.get("vm_action") != ACTION.get(tool, tool):
                wrong.append(f"vm_action={p.get('vm_action')} for {tool}")
            if per_vm:
                obs.append((c[1], p.get("vms")))
            else:
                if sorted(p.get("vms", "").split()) != sorted(sel):
                    wrong.append(f"vms={p.get('vms')} for selection {sel}")
                obs.append((c[1], None))
        term = cpair(clist([cN(I("w:" + w)) for w in nets.split()]), clist([cN(I("v:" + v)) for v in sel]), cbool(per_vm),
                     clist([cpair(cN(I("w:" + w)), cN(0) if v is None else cN(I("v:" + v))) for w, v in obs]))
        terms.append(term)
        obs_all.append((ret, obs, wrong))
    if runs:
        res = coq_failing(ctx, IMPORTS, "star_case", terms, ["star_ok"], shard=100, tag="star")
        bad = set(res["star_ok"]) | {k for k, o in enumerate(obs_all) if o[2]}
        ctx.obligation("monitor:once-per-selected-vm-and-worker", "monitor", not bad, f"{len(bad)} of {len(runs)} tool runs violate the rule")
        for k in sorted(bad)[:2]:
            ctx.fail(f"C20:tool:{runs[k][0]}", f"{runs[k][0]}: not exactly one execution per selected vm and compatible worker, or wrong parameters",
                     {"tool": runs[k][0], "vms": runs[k][1], "nets": runs[k][2], "vm_strs": restricted.get(k), "extra": modes[k][0], "failing": modes[k][1], "return": obs_all[k][0], "executions": obs_all[k][1],
                      "wrong": obs_all[k][2], "obligation": "monitor:once-per-selected-vm-and-worker"}, True)
        ctx.count(len(runs), sum(1 for t, s, n in runs if len(n.split()) > 1 and len(s) > 1))
        ctx.coverage["tools_run"] = sorted({t for t, s, n in runs})
    if not replay:
        real_chain_part(ctx, rng)
    ctx.coverage["rule"] = ("chains: every sequence of up to 3 step outcomes over {None, 0, 1, 2, raise} (exhaustive) plus random chains of 4-9 steps through the real "
                            "Manu.run with stub steps; tools: check/get/set/unset/push/pop/clean (one node per vm and worker) and boot/shutdown (one node per "
                            "worker) x 4 vm selections x 4 worker sets (incl. a remote cluster), run through the real intertest_setup functions with "
                            "the selftests' job seam and randomly delayed stub tests. Non-trivial: >= 2 workers and >= 2 vms.")
    ctx.explanation.append(
        "Theorems in Props/C20.v: all steps of a chain run in order and the return code is 1 iff some step failed (any chain); every execution the "
        "traversal starts is by the node's own worker (any schedule). PARTIAL: 'exactly once per selected vm and compatible worker' is evaluated "
        "(Check.C20.star_ok) on the executions observed from the real tools, not proved for the traversal model.")
    ctx.assumptions += ["the selftests' job seam (mock job, stub run_test_task, recording door)",
                        "the run policy 'not yet finished by this worker' of the tools is exercised through the real code only"]
