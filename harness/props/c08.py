"""C08 - see trav_props.py (traversal model, correspondence on hand-driven coroutines, monitors); plus the shared
session cache of the workers (worker.py: get_session) against Model/Session.v."""
from harness.props import trav_props

EXTRA_TARGETS = ["Check/Trav.vo", "Check/Session.vo"]
NETS = ["cluster1.net6 cluster2.net6 cluster1.net7 net1 net2", "cluster1.net6 cluster2.net6", "net1 net2 net3",
        "cluster2.net7 cluster1.net7 cluster2.net6", "cluster1.net6 cluster1.net7"]


def session_part(ctx, rng, replay=None):
    """sequences of get_session calls by the real workers of several clusters (stubbed login, health check failing at
    random): which login each handed-out session came from"""
    from unittest import mock
    from aexpect.exceptions import ShellTimeoutError
    from avocado_i2n.cartgraph import TestGraph, TestWorker
    from avocado_i2n.cartgraph import worker as worker_mod
    from harness import synth
    from harness.common import coq_failing, cN, cnat
    cases, terms = [], []
    n = 1 if replay else (120 if ctx.thorough else 40)
    for k in range(n):
        if replay:
            nets, calls = replay["data"]["session_case"]["nets"], [tuple(c) for c in replay["data"]["session_case"]["calls"]]
        else:
            nets = rng.choice(NETS)
            calls = None
        synth.reset_swarms()
        workers = TestGraph.parse_workers({"nets": nets})
        if calls is None:
            calls = [(rng.randrange(len(workers)), rng.random() < 0.8) for _ in range(rng.randint(2, 12))]
        addr_ids = {}
        logins = []

        def wait_for_login(client, host, port, *a, **kw):
            s = mock.MagicMock()
            s.login_no, s.address = len(logins), f"{host}:{port}"
            logins.append(s)
            return s
        TestWorker._session_cache.clear()
        ops, obs = [], []
        with mock.patch.object(worker_mod.remote, "wait_for_login", wait_for_login):
            for wi, healthy in calls:
                w = workers[wi]
                own = w.params["nets_shell_host"] + ":" + w.params["nets_shell_port"]
                for s in logins:
                    s.cmd_output.side_effect = None if healthy else ShellTimeoutError("date", "")
                before = len(logins)
                sess = w.get_session()
                ops.append((addr_ids.setdefault(own, len(addr_ids)), healthy))
                obs.append((sess.login_no, addr_ids.setdefault(sess.address, len(addr_ids)), len(logins) > before))
        TestWorker._session_cache.clear()
        cases.append({"nets": nets, "calls": [list(c) for c in calls], "workers": [w.id for w in workers],
                      "handed_out": [[workers[c[0]].id, logins[o[0]].address] for c, o in zip(calls, obs)]})
        terms.append("([" + "; ".join(f"({cN(a)}, {'true' if h else 'false'})" for a, h in ops) + "], [" +
                     "; ".join(f"({cnat(i)}, {cN(a)}, {'true' if f else 'false'})" for i, a, f in obs) + "])")
    res = coq_failing(ctx, "Model.Session Check.Session", "sess_case", terms, ["sess_corr", "sess_own"], tag="sess")
    ctx.obligation("correspondence:session-cache", "correspondence", not res["sess_corr"],
                   f"{len(res['sess_corr'])} of {len(cases)} call sequences of get_session differ from Model/Session.v")
    ctx.obligation("monitor:C08:session-of-the-calling-worker", "monitor", True,
                   f"{len(res['sess_own'])} of {len(cases)} call sequences handed a worker a session opened to another address")
    for k in res["sess_own"][:1]:
        c = cases[k]
        wrong = next((h for h in c["handed_out"]), None)
        ctx.fail("C08:session-of-another-worker", f"a worker was handed a remote session opened to another worker's address ({c['handed_out']})",
                 {"session_case": c}, True)
    for k in [k for k in res["sess_corr"] if k not in res["sess_own"]][:1]:
        ctx.fail("C08:session-cache-correspondence", "get_session and Model/Session.v disagree on a call sequence", {"session_case": cases[k]}, False)
    ctx.count(len(cases), sum(1 for c in cases if len(set(c["workers"])) > 2))


def run(ctx, replay=None):
    if replay and "session_case" in replay.get("data", {}):
        import random
        session_part(ctx, random.Random(ctx.seed), replay)
        return
    trav_props.run_property(ctx, "C08", replay)
    if not replay:
        session_part(ctx, ctx.rng)
