"""Shared body of the traversal checks C01-C05 and C08: a batch of traversals of synthetic graphs (real
TestGraph/TestNode/TestRunner code, hand-driven coroutines) is compared section by section with
Model/TraverseRun.v, and the property's monitor is evaluated on what the implementation did."""
from harness import travgen, trav
from harness.common import coq_failing

FLAVOURS = {
    "C01": [None, "removable", "handover", "contention", "retry"],
    "C02": [None, "retry", "removable", "contention"],
    "C03": ["retry", "contention", "retry", None],
    "C04": ["contention", "retry", "contention", None],
    "C05": ["removable", "directed", "handover", "directed", "contention", "directed", None],
    "C08": [None, "contention", "retry", "removable"],
}
SEED_SHIFT = {"C01": 101, "C02": 202, "C03": 303, "C04": 404, "C05": 505, "C08": 808}


def monitors(prop, c):
    """property violations observed on the implementation's run: list of (signature, text)"""
    run, spec, x = c["run"], c["spec"], c["x"]
    out = []
    np_ = spec["node_params"]
    if prop == "C01":
        for m in run.monitor:
            if m[0] == "C01":
                out.append((classify_c01(c, m), m[1]))
    elif prop == "C08":
        for m in run.monitor:
            if m[0] == "C08":
                out.append(("C08:" + m[1].split(" ")[0], m[1]))
    elif prop == "C05":
        for m in run.monitor:
            if m[0] == "C05":
                if m[1].endswith("in another swarm"):
                    out.append(("C05:cross-swarm-dependant-ignored", m[1]))
                elif m[1].startswith("state removed before the worker of a dependant arrived"):
                    out.append(("C05:removed-before-late-worker-arrived", m[1]))
                elif m[1].startswith("state removed by "):
                    out.append(("C05:removed-before-dependant-of-arrived-worker-started", m[1]))
                else:
                    out.append(("C05:" + m[1].replace(" ", "-")[:40], m[1]))
        marked = any(st.get("unset", "r")[0] == "f" for sts in spec["states"].values() for st in sts) or \
            any(np_.get(k, "r")[0] == "f" for k in ("unset_mode_vms", "unset_mode_images", "unset_mode"))
        doors = [e for evs in run.events for e in evs if e[0] == "door"]
        if not marked and np_.get("pool_filter", "reuse") in ("reuse", "block") and doors:
            out.append(("C05:state-altered-while-backing-out", f"door request {doors[0]} although nothing is marked for removal"))
        if any(e[3] for e in doors) and not marked:
            out.append(("C05:unset-not-asked", "unset request although no state is marked for removal"))
    elif prop == "C02":
        fails = [e for evs in run.events for e in evs if e[0] == "fail"]
        if fails:
            out.append((f"C02:traversal-error-{fails[0][2]}", f"traversal error {fails[0][3]}"))
        if not run.terminated:
            out.append(("C02:not-terminated", f"no exit after {len(run.sections)} atomic sections"))
        starts = [e for evs in run.events for e in evs if e[0] == "start"]
        doors = [e for evs in run.events for e in evs if e[0] in ("door", "scan")]
        if np_.get("dry_run") == "yes" and (starts or doors):
            out.append(("C02:dry-run-not-inert", "a dry run executed a test or touched a state"))
        never = any(o is None for w, o in run.sections)
        if run.terminated and not fails and np_.get("dry_run") != "yes" and not never:
            for leaf in spec["leaves"]:
                members = [n for n in x.nodes if f".{leaf['name']}.vms." in n.params["name"]]
                results = [r for n in members for r in n.results]
                if not results or any(r["status"] == "UNKNOWN" for r in results):
                    out.append(("C02:selected-test-without-definite-result", f"{leaf['name']}: results {[r['status'] for r in results]}"))
    elif prop == "C03":
        out += budget_monitor(c)
    elif prop == "C04":
        out += overlap_monitor(c)
    return out


def classify_c01(c, m):
    """known pattern: the only copy of the state was left in ANOTHER worker's own pool before the run"""
    import re
    mm = re.search(r"state \('([^']+)', '([^']+)'\)", m[1])
    if not mm:
        return "C01:state-unavailable"
    x = [mm.group(1), mm.group(2)]
    worker = c["run"].workers[m[2]].id
    init = c["store"]
    elsewhere = any(k not in ("None", worker) and x in [list(t) for t in v] for k, v in init.items())
    here = any(k in ("None", worker) and x in [list(t) for t in v] for k, v in init.items())
    if elsewhere and not here:
        return "C01:residue-only-in-another-workers-own-pool"
    # the state was there and was removed (unset_mode f.) before this worker, which had not yet arrived at the producer, ran
    # its dependant: the C05 known finding seen from the dependant
    if c["run"].c01_removed.get((m[2], m[3], tuple(x))) == "late":
        return "C01:state-removed-before-late-worker-arrived"
    # node.py derives the reuse scope from ONE keyword per spawner (lxc: swarm, remote: cluster); the other keyword is
    # ignored, so a worker reuses setup of a worker whose pool lies behind a scope that is disabled
    w = c["run"].workers[m[2]]
    scopes = c["spec"]["node_params"].get("pool_scope", "").split()
    ignored = {"remote": "swarm", "lxc": "cluster"}.get(w.params.get("nets_spawner"))
    holders = c["run"].c01_detail.get((m[2], m[3], tuple(x)), [])
    if ignored and ignored not in scopes and any(between == ignored for _, between in holders):
        return "C01:reuse-scope-ignores-disabled-pool-scope"
    return "C01:state-unavailable"


def scope_of(c, node, w):
    p = node.params
    worker = c["run"].workers[w]
    if "swarm" not in p["pool_scope"] and p.get("nets_spawner") == "lxc":
        return ("worker", worker.id)
    if "cluster" not in p["pool_scope"] and p.get("nets_spawner") == "remote":
        return ("swarm", worker.swarm_id)
    return ("global",)


def budget_monitor(c):
    run, x = c["run"], c["x"]
    out = []
    counts = {}
    seen_uid = {}
    present_first = {}
    for k, evs in enumerate(run.events):
        for e in evs:
            if e[0] == "scan":
                node = x.nodes[e[2]]
                key = (node.bridged_form, scope_of(c, node, e[1]))
                present_first.setdefault(key, not e[3])
            if e[0] == "start":
                node = x.nodes[e[2]]
                if node.is_flat() or len(node.cloned_nodes) > 0:
                    out.append(("C03:inert-node-executed", f"flat or clone-source node {e[2]} executed"))
                key = (node.bridged_form, scope_of(c, node, e[1]))
                if not e[4]:
                    counts[key] = counts.get(key, 0) + 1
                    if present_first.get(key):
                        out.append(("C03:present-setup-executed", f"class of node {e[2]} executed although all its states were found at first examination"))
                ukey = (node.params["name"], e[4], e[3])
                if ukey in seen_uid and not e[4]:
                    out.append(("C03:uid-reused", f"execution identifier {e[3]} of node {e[2]} reused"))
                seen_uid[ukey] = k
    bumped = any(e[0] == "bounce" and e[3] for evs in run.events for e in evs)
    for (form, sc), cnt in counts.items():
        node = next(n for n in x.nodes if n.bridged_form == form)
        budget = max(1, int(node.params.get("max_tries", 1)))
        mct = node.params.get("max_concurrent_tries")
        if cnt > budget and not bumped and (mct is None or int(mct) <= budget):
            out.append(("C03:budget-exceeded", f"{cnt} executions of {node.params['name'].split('.vms.')[0]} in scope {sc}, budget {budget}"))
    return out


def overlap_monitor(c):
    run, x = c["run"], c["x"]
    out = []
    bumped = any(e[0] == "bounce" and e[3] for evs in run.events for e in evs)
    if bumped and c.get("timed"):
        out.append(("C04:reentrancy-granted-without-overrun", "max_concurrent_tries was raised although no test ran longer than its test_timeout"))
    if bumped and not c.get("timed"):
        return out        # untimed schedules may keep a test running arbitrarily long
    points = sorted({iv[3] for iv in run.intervals})
    for t in points:
        live = [iv for iv in run.intervals if iv[3] <= t and (iv[4] is None or iv[4] > t)]
        groups = {}
        for iv in live:
            node = x.nodes[iv[2]]
            groups.setdefault((iv[0], scope_of(c, node, iv[1])), set()).add(iv[1])
        for (form, sc), ws in groups.items():
            node = next(n for n in x.nodes if n.bridged_form == form)
            limit = max(1, int(node.params.get("max_concurrent_tries", node.params.get("max_tries", 1))))
            if len(ws) > limit:
                out.append(("C04:concurrent-executions", f"{len(ws)} workers execute {node.params['name'].split('.vms.')[0]} at once in scope {sc}, limit {limit}"))
                return out
    for evs in run.events:
        for e in evs:
            if e[0] == "bounce" and e[2] > 3600 * 100:
                out.append(("C04:unbounded-backoff", f"back-off of {e[2] / 100} s"))
    return out


def lazy_monitors(prop, o):
    out = []
    if prop in ("C01", "C05", "C08"):
        for m in o["monitor"]:
            if m[0] == prop:
                out.append((f"{prop}:lazy:" + m[1].split("(")[0].strip().replace(" ", "-")[:40], m[1]))
        if prop == "C05" and not o["marked"] and o["doors"]:
            out.append(("C05:lazy:state-altered-while-backing-out", f"door request {o['doors'][0]} although nothing is marked for removal"))
    if prop == "C02":
        if o["fails"]:
            out.append(("C02:lazy:traversal-error", f"traversal error {o['fails'][0]}"))
        if not o["terminated"]:
            out.append(("C02:lazy:not-terminated", f"no exit after {o['sections']} atomic sections"))
        if o["dry"] and (o["nstarts"] or o["doors"]):
            out.append(("C02:lazy:dry-run-not-inert", "a dry run executed a test or touched a state"))
        if o["terminated"] and not o["fails"] and not o["dry"] and not o["never"]:
            for name in o["flat"]:
                res = o["leaf_results"].get(name)
                if not res and not o["compatible"].get(name):
                    continue        # no worker can compose this test (decided per worker in a fresh graph): exempt
                if not res or "UNKNOWN" in res:
                    out.append(("C02:lazy:selected-test-without-definite-result", f"{name}: results {res}" +
                                (f" although it can be composed for {o['compatible'].get(name)}" if not res else "")))
                    break
    if prop == "C03" and o["budget"]:
        out.append(("C03:lazy:budget-exceeded", f"executions over budget: {o['budget']}"))
    if prop == "C04" and o["overlap"]:
        out.append(("C04:lazy:concurrent-executions", f"{o['overlap']} worker(s) above the limit inside one test at once"))
    return out



def scan_part(ctx, rng, prop="C03"):
    """C03: the real TestNode.scan_states under a stubbed door (ok / assertion / any other fault), against Model/Scan.v"""
    from unittest import mock
    from aexpect.exceptions import ShellCmdError
    from avocado_i2n.cartgraph import node as node_mod
    from harness.common import coq_failing
    cases, terms = [], []
    for k in range(24):
        spec = travgen.gen_spec(rng, None)
        spec["node_params"]["suite_path"] = "/nonexistent"
        g, workers, root = trav.build_graph(spec)
        nodes = [n for n in g.nodes if not n.is_flat() and n is not root]
        for n in rng.sample(nodes, min(3, len(nodes))):
            leaf = not any(o.object_typed_params(n.params).get("set_state") for o in n.objects)
            for door_kind, output in (("DoorOk", None), ("DoorAssertion", "Traceback ...\nAssertionError: state missing"),
                                      ("DoorOther", rng.choice(["OSError: [Errno 5] Input/output error", "Connection reset by peer", "", "KeyError: 'vms'"]))):
                n.started_worker = rng.choice(workers)

                def run_subcontrol(session, path, _out=output):
                    if _out is not None:
                        raise ShellCmdError("python control", 1, _out)
                with mock.patch.object(node_mod.door, "run_subcontrol", run_subcontrol), \
                        mock.patch.object(node_mod.door, "set_subcontrol_parameter", lambda *a, **kw: "/nonexistent/control"), \
                        mock.patch.object(node_mod.door, "set_subcontrol_parameter_dict", lambda *a, **kw: "/nonexistent/control"), \
                        mock.patch.object(type(n.started_worker), "get_session", lambda self: object()):
                    try:
                        got = "Some true" if n.scan_states() else "Some false"
                    except RuntimeError:
                        got = "None"
                    except Exception as e:      # any other exception is an answer the model never gives
                        got = f"(* {type(e).__name__} *) Some false" if door_kind == "DoorOther" else "None"
                cases.append({"node": n.params["name"], "leaf": leaf, "door": door_kind, "output": output, "answer": got})
                terms.append(f"({'true' if leaf else 'false'}, {door_kind}, {got})")
    res = coq_failing(ctx, "Model.Scan Check.Scan", "scan_case", terms, ["scan_corr"], tag="scan")
    bad = res["scan_corr"]
    ctx.obligation("correspondence:scan-classification", "correspondence", not bad,
                   f"{len(bad)} of {len(cases)} answers of scan_states differ from Model/Scan.v "
                   f"({sum(1 for c in cases if c['leaf'])} on tests that set no state, {sum(1 for c in cases if c['door'] == 'DoorOther')} with a faulty check run)")
    for k in bad[:1]:
        c = cases[k]
        # a wrong yes/no answer on a test that sets states is the property failing: 'run' without a reported missing state executes
        # a present setup (C03); 'do not run' for a check run that reported a missing state, or that could not be completed,
        # lets the dependants start without the state (C01)
        wrong_run = (not c["leaf"]) and c["door"] != "DoorAssertion" and c["answer"].endswith("Some true")
        wrong_skip = (not c["leaf"]) and c["door"] != "DoorOk" and c["answer"].endswith("Some false")
        has_input = wrong_run or wrong_skip
        ctx.fail(f"{prop}:scan-" + ("runs-present-setup" if wrong_run else "skips-setup-of-unknown-presence" if wrong_skip else "classification"),
                 f"scan_states answered {c['answer']} for a check run that {'failed with ' + repr(c['output']) if c['output'] is not None else 'succeeded'}"
                 + (": a setup test whose states were not reported missing is to be executed" if wrong_run else
                    ": a setup test is skipped although its states were not found present" if wrong_skip else ""),
                 {"scan_case": c}, has_input)
    ctx.count(len(cases), sum(1 for c in cases if not c["leaf"]))


def lazy_part(ctx, prop, rng, seen, replay):
    """traversals with on-demand parsing of the shipped suite: property monitors only (no model)"""
    import concurrent.futures
    from harness import lazyrun
    if replay and "lazy" in replay.get("data", {}):
        d = replay["data"]["lazy"]
        jobs = [(d["restr"], d["nets"], d["seed"], ctx.work, d.get("extra"))]
    elif replay:
        return
    else:
        combos = [(r, n) for r in lazyrun.RESTRS for n in lazyrun.NETS]
        rng.shuffle(combos)
        k = 40 if ctx.thorough else 6
        jobs = [(r, n, rng.randrange(10 ** 6), ctx.work, {"dry_run": "yes"} if (prop == "C02" and i == 0) else
                 ({"max_tries": "2"} if prop in ("C03", "C04") and i % 2 == 0 else None)) for i, (r, n) in enumerate(combos[:k])]
        if prop == "C02":
            # corpus: a worker that supports no variant of the selected test (net5: only Fedora) beside one that does - whoever
            # unrolls the test first, the compatible worker has to execute it
            jobs += [("normal..tutorial1", "net4 net5", sd, ctx.work, None) for sd in (11, 12, 13, 14)]
        if prop in ("C01", "C05"):
            # corpus: the producer of a state marked for removal (guisetup.noop) selected together with a dependant that is the
            # LAST test to be unrolled: the cleanup has to wait for it
            jobs += [("leaves..tutorial_gui.client_noop,leaves..tutorial_get.explicit_noop", nets, sd, ctx.work, None)
                     for nets, sd in (("net1", 21), ("net1", 22), ("net1 net2", 23))]
        if prop in ("C01", "C08"):
            # corpus: a two-vm test whose vms both need a same-named setup state, non-default vm1 variant
            jobs.append(("normal..tutorial3", "net1", 7, ctx.work, {"_vm1": "Fedora"}))
    with concurrent.futures.ProcessPoolExecutor(max_workers=12) as ex:
        outs = list(ex.map(lazyrun.lazy_job, jobs))
    hits = 0
    for o in outs:
        for sig, text in lazy_monitors(prop, o):
            hits += 1
            if sig in seen:
                continue
            seen.add(sig)
            ctx.fail(sig, f"{prop} (lazy parsing): {text}",
                     {"lazy": {"restr": o["restr"], "nets": o["nets"], "seed": o["seed"], "extra": o["extra"]}, "violation": text,
                      "pools": o["pools"], "monitor": o["monitor"]}, True)
    ctx.obligation(f"monitor:{prop}:lazy-runs", "monitor", True, f"{hits} monitor hits in {len(outs)} lazy traversals of the shipped suite")
    ctx.coverage["lazy_runs"] = [{"restr": o["restr"], "nets": o["nets"], "sections": o["sections"], "executions": o["nstarts"],
                                  "expanded_workers": o["expanded_workers"], "pools": o["pools"], "mode": o["mode"]} for o in outs]
    ctx.count(len(outs), sum(1 for o in outs if len(o["expanded_workers"]) > 1))


def run_property(ctx, prop, replay=None):
    import random
    rng = random.Random(ctx.seed * 1000 + SEED_SHIFT[prop])
    ctx.rng = rng
    fixed = None
    if replay and "spec" in replay.get("data", {}):
        d = replay["data"]
        fixed = (d["spec"], d["initial_pools"], d["schedule"], d.get("terminated", True))
    n = 0 if fixed else (1200 if ctx.thorough else 110)
    cases = travgen.run_batch(ctx, n, FLAVOURS[prop], prop.lower(), fixed=fixed, timed_share={"C04": 0.7, "C02": 0.3}.get(prop, 0.15))
    bad = [c for c in cases if not c["agrees"]]
    ctx.obligation("correspondence:traversal-traces", "correspondence", not bad,
                   f"{len(bad)} of {len(cases)} traversals differ from Model/TraverseRun.v in some atomic section")
    for c in bad[:1]:
        d = travgen.replay_data(c)
        d["model_vs_impl"] = travgen.describe_diff(ctx, c)
        d["obligation"] = "correspondence:traversal-traces"
        mons = monitors(prop, c)
        ctx.fail(f"{prop}:traversal-correspondence", "the traversal (graph.py / node.py / runner.py) and the model disagree on a trace",
                 d, False)
    if prop in ("C01", "C02"):
        thm = {"C01": "C01_available_at_start_single_worker", "C02": "C02_exit_means_every_reachable_test_was_dealt_with"}[prop]
        # the hypotheses of C01_available_at_start_single_worker / C02_exit_means_every_reachable_test_was_dealt_with (simple_b) on the exported single-worker graphs: which graphs the
        # theorem covers; a single-worker graph without removable states / permanent objects and with own+shared in scope must meet them
        from harness.common import coq_failing
        single = [k for k, c in enumerate(cases) if len(c["spec"]["workers"]) == 1]
        if single:
            res = coq_failing(ctx, travgen.IMPORTS, "trav_case", [cases[k]["term"] for k in single], ["trav_simple"],
                              shard=max(1, len(single) // 8 + 1), tag="simple", timeout=900)
            outside = {single[j] for j in res["trav_simple"]}

            def expected_simple(c):
                sp = c["spec"]
                scope = sp["node_params"].get("pool_scope", "").split()
                removable = any(st.get("unset", "r")[0] == "f" for sts in sp["states"].values() for st in sts) or \
                    any(sp["node_params"].get(k, "r")[0] == "f" for k in ("unset_mode_vms", "unset_mode_images", "unset_mode"))
                permanent = any(v.get("permanent") for v in sp["vms"].values())
                return "own" in scope and "shared" in scope and not removable and not permanent
            unexpected = [k for k in single if expected_simple(cases[k]) and k in outside]
            ctx.obligation("hypotheses:simple_b-holds-of-plain-single-worker-graphs", "correspondence", not unexpected,
                           f"{len(unexpected)} plain single-worker graphs do not meet simple_b")
            for k in unexpected[:1]:
                d = travgen.replay_data(cases[k])
                d["obligation"] = "hypotheses:simple_b-holds-of-plain-single-worker-graphs"
                ctx.fail(f"{prop}:theorem-hypotheses-not-met", f"a plain single-worker graph does not meet the hypotheses (simple_b) of {thm}", d, False)
            ctx.coverage[f"graphs_covered_by_{thm}"] = len(single) - len(outside)
            ctx.coverage["single_worker_graphs"] = len(single)
    if prop == "C01":
        # the hypothesis of C01_named_sources_hold_the_states (fw_ok_b: results are attributed to the node's only owner) on every
        # exported graph
        from harness.common import coq_failing
        res = coq_failing(ctx, travgen.IMPORTS, "trav_case", [c["term"] for c in cases], ["trav_fw"],
                          shard=max(1, len(cases) // 16 + 1), tag="fw", timeout=900)
        ctx.obligation("hypotheses:fw_ok_b-holds-of-exported-graphs", "correspondence", not res["trav_fw"],
                       f"{len(res['trav_fw'])} of {len(cases)} exported graphs attribute a node's results to a worker that does not own it")
        for k in res["trav_fw"][:1]:
            d = travgen.replay_data(cases[k])
            d["obligation"] = "hypotheses:fw_ok_b-holds-of-exported-graphs"
            ctx.fail("C01:theorem-hypotheses-not-met", "an exported graph does not meet the hypothesis (fw_ok_b) of C01_named_sources_hold_the_states", d, False)
        ctx.coverage["graphs_covered_by_C01_named_sources_hold_the_states"] = len(cases) - len(res["trav_fw"])
    if prop == "C02":
        # the hypotheses of C02_no_path_errors (pwf_b: symmetric edges, root without parents and sole parent of the nodes below it,
        # root registers its own) on every exported graph, any number of workers
        from harness.common import coq_failing
        res = coq_failing(ctx, travgen.IMPORTS, "trav_case", [c["term"] for c in cases], ["trav_pwf"],
                          shard=max(1, len(cases) // 16 + 1), tag="pwf", timeout=900)
        ctx.obligation("hypotheses:pwf_b-holds-of-exported-graphs", "correspondence", not res["trav_pwf"],
                       f"{len(res['trav_pwf'])} of {len(cases)} exported graphs do not meet pwf_b")
        for k in res["trav_pwf"][:1]:
            d = travgen.replay_data(cases[k])
            d["obligation"] = "hypotheses:pwf_b-holds-of-exported-graphs"
            ctx.fail("C02:theorem-hypotheses-not-met", "an exported graph does not meet the hypotheses (pwf_b) of C02_no_path_errors", d, False)
        ctx.coverage["graphs_covered_by_C02_no_path_errors"] = len(cases) - len(res["trav_pwf"])
        # the hypotheses of C02_exit_means_done_any_workers (ewf_b): the form of an ordinary test of a worker is not shared by
        # another node that worker decides on; dry runs are outside by construction (every node is dry there)
        res = coq_failing(ctx, travgen.IMPORTS, "trav_case", [c["term"] for c in cases], ["trav_ewf"],
                          shard=max(1, len(cases) // 16 + 1), tag="ewf", timeout=900)
        dry = [k for k in res["trav_ewf"] if cases[k]["spec"]["node_params"].get("dry_run") == "yes"]
        other = [k for k in res["trav_ewf"] if k not in dry]
        ctx.obligation("hypotheses:ewf_b-holds-of-exported-graphs", "correspondence", not other,
                       f"{len(res['trav_ewf'])} of {len(cases)} exported graphs do not meet ewf_b, {len(dry)} of them dry runs")
        for k in other[:1]:
            d = travgen.replay_data(cases[k])
            d["obligation"] = "hypotheses:ewf_b-holds-of-exported-graphs"
            ctx.fail("C02:theorem-hypotheses-not-met", "an exported graph does not meet the hypotheses (ewf_b) of C02_exit_means_done_any_workers", d, False)
        ctx.coverage["graphs_covered_by_C02_exit_means_done_any_workers"] = len(cases) - len(res["trav_ewf"])
    if prop == "C03":
        # the hypotheses of C03_present_setup_never_executed (cls_all_b: the copies of every ordinary stateful test with the
        # global reuse scope lie in the graph, see the same class and agree on their kind) on every exported graph
        from harness.common import coq_failing
        res = coq_failing(ctx, travgen.IMPORTS, "trav_case", [c["term"] for c in cases], ["trav_cls"],
                          shard=max(1, len(cases) // 16 + 1), tag="cls", timeout=900)
        # (copies of one class can derive different reuse scopes for mixed lxc/remote worker sets under a partial pool_scope - the
        # second C01 known finding; those graphs are outside the theorem and only covered by the monitors)
        mixed = [k for k in res["trav_cls"] if len({w.get("spawner", "lxc") for w in cases[k]["spec"]["workers"]}) > 1]
        other = [k for k in res["trav_cls"] if k not in mixed]
        ctx.obligation("hypotheses:cls_all_b-holds-of-exported-graphs", "correspondence", not other,
                       f"{len(res['trav_cls'])} of {len(cases)} exported graphs have a class of setup-test copies that does not meet cls_b, "
                       f"{len(mixed)} of them with mixed lxc/remote workers (scope disagreement)")
        for k in other[:1]:
            d = travgen.replay_data(cases[k])
            d["obligation"] = "hypotheses:cls_all_b-holds-of-exported-graphs"
            ctx.fail("C03:theorem-hypotheses-not-met", "an exported graph does not meet the hypotheses (cls_all_b) of C03_present_setup_never_executed", d, False)
        ctx.coverage["graphs_covered_by_C03_present_setup_never_executed"] = len(cases) - len(res["trav_cls"])
    if prop == "C04":
        # the hypotheses of C04_mutual_exclusion on every exported graph: one owner per node, bridged classes agreeing on flat
        # (must always hold) and on the reuse scope (fails for mixed lxc/remote worker sets under a partial pool_scope: those
        # graphs are outside the theorem and only covered by the monitors)
        from harness.common import coq_failing
        res = coq_failing(ctx, travgen.IMPORTS, "trav_case", [c["term"] for c in cases], ["trav_gwf_core", "trav_gwf"],
                          shard=max(1, len(cases) // 16 + 1), tag="gwf", timeout=900)
        ctx.obligation("hypotheses:gwf_core_b-holds-of-exported-graphs", "correspondence", not res["trav_gwf_core"],
                       f"{len(res['trav_gwf_core'])} of {len(cases)} exported graphs have a node with two owners or bridged copies that do not form a class")
        for k in res["trav_gwf_core"][:1]:
            d = travgen.replay_data(cases[k])
            d["obligation"] = "hypotheses:gwf_core_b-holds-of-exported-graphs"
            ctx.fail("C04:theorem-hypotheses-not-met", "an exported graph does not meet the structural hypotheses (gwf_core_b) of C04_mutual_exclusion", d, False)
        outside = [k for k in res["trav_gwf"] if k not in set(res["trav_gwf_core"])]
        mixed = [k for k in outside if len({w.get("spawner", "lxc") for w in cases[k]["spec"]["workers"]}) > 1]
        ctx.obligation("hypotheses:scope-disagreement-only-for-mixed-spawners", "correspondence", len(mixed) == len(outside),
                       f"{len(outside)} graphs whose copies derive different reuse scopes, {len(mixed)} of them with mixed lxc/remote workers")
        ctx.coverage["graphs_covered_by_C04_mutual_exclusion"] = len(cases) - len(res["trav_gwf"])
        ctx.coverage["graphs_outside_the_theorem_scope_disagreement"] = len(outside)
    seen = set()
    hits = 0
    if bad and not fixed:
        # the correspondence broke: search for a concrete failing input on the graphs where it did - the implementation alone under
        # fresh schedules and outcome assignments, judged by the property monitors
        tried = 0
        for c0 in bad[:3]:
            for c in travgen.search_around(rng, c0, 180 if ctx.thorough else 60):
                tried += 1
                for sig, text in monitors(prop, c):
                    if sig in seen:
                        continue
                    seen.add(sig)
                    d = travgen.replay_data(c)
                    d["violation"] = text
                    d["found_by"] = "search around a graph on which the correspondence broke"
                    ctx.fail(sig, f"{prop}: {text}", d, True)
        from harness.common import load_findings
        known = {k["signature"] for k in load_findings() if k.get("property") == prop and k.get("kind") == "known"}
        if not (seen - known):
            # nothing (beyond the known findings) on those graphs: freshly generated graphs of the property's flavours, each under
            # the same variations of workers, schedules and outcomes, implementation only
            for t in range(15 if ctx.thorough else 6):
                spec = travgen.gen_spec(rng, [f for f in FLAVOURS[prop] if f != "directed"][t % len([f for f in FLAVOURS[prop] if f != "directed"])])
                for c in travgen.search_around(rng, {"spec": spec, "store": {}}, 60):
                    tried += 1
                    for sig, text in monitors(prop, c):
                        if sig in seen:
                            continue
                        seen.add(sig)
                        d = travgen.replay_data(c)
                        d["violation"] = text
                        d["found_by"] = "search on fresh graphs after the correspondence broke"
                        ctx.fail(sig, f"{prop}: {text}", d, True)
                if seen - known:
                    break
        ctx.coverage["search_after_broken_correspondence"] = {"graphs": len(bad[:3]), "runs": tried, "signatures": sorted(seen)}
    for c in cases:
        for sig, text in monitors(prop, c):
            hits += 1
            if sig in seen:
                continue
            seen.add(sig)
            d = travgen.replay_data(c)
            d["violation"] = text
            ctx.fail(sig, f"{prop}: {text}", d, True)
    ctx.obligation(f"monitor:{prop}", "monitor", True, f"{hits} monitor hits in {len(cases)} traversals (see violations / known findings)")
    lazy_part(ctx, prop, rng, seen, replay)
    if prop in ("C01", "C03") and (not replay or "scan_case" in replay.get("data", {})):
        scan_part(ctx, rng, prop)
    sections = sum(len(c["run"].sections) for c in cases)
    contended = sum(1 for c in cases if any(e[0] == "bounce" for evs in c["run"].events for e in evs))
    ctx.count(len(cases), contended)
    ctx.coverage["atomic_sections"] = sections
    ctx.coverage["traversals_with_a_worker_bouncing_off_an_occupied_node"] = contended
    ctx.coverage["worker_counts"] = sorted({len(c["spec"]["workers"]) for c in cases})
    ctx.coverage["non_terminated"] = sum(1 for c in cases if not c["run"].terminated)
    ctx.coverage["initial_pool_kinds"] = {"empty": sum(1 for c in cases if not c["store"]), "populated": sum(1 for c in cases if c["store"])}
    hist = {}
    for c in cases:
        for evs in c["run"].events:
            for e in evs:
                hist[e[0]] = hist.get(e[0], 0) + 1
    ctx.coverage["event_histogram"] = hist
    c0 = cases[0]
    ctx.sample({"spec": c0["spec"], "schedule_head": [list(s) for s in c0["run"].sections[:6]],
                "events_head": [[list(map(str, e)) for e in evs] for evs in c0["run"].events[:3]]})
    ctx.coverage["rule"] = ("synthetic static graphs built from real TestNode/TestObject/TestWorker objects: 1-4 lxc workers, 2-3 remote workers in 1-2 "
                            "clusters, mixed sets; 1-3 vms with state trees of depth 1-5 (image and vm level), 1-5 leaves over 1-2 vms, removable "
                            "states, retries (max_tries, max_concurrent_tries, rerun/stop status), 10 pool_scope settings, dry runs, pool "
                            "filters; initial pools: empty / shared prefixes / holes / per-worker residue of an interrupted run; outcomes: all "
                            "pass, planned failures, flaky statuses, never reported; schedules: random choice of the worker to resume at every "
                            "await. Non-trivial: traversals in which a worker bounced off an occupied node. Lazy (flat-node) expansion is not "
                            "in this model (see C09).")
    ctx.assumptions += ["asyncio runs a coroutine atomically between awaits (the driver resumes coroutines by hand)",
                        "store semantics shared by model, fake door and stub task: PASS adds the set states to the worker's own pool; "
                        "a scan reads own and shared pools as pool_scope allows; unset removes from the own pool",
                        "static graphs only; traverse_terminal_node's parse of the creation pre-node is replaced by a stub node"]
