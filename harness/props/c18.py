"""C18 — vm network model / address arithmetic against Model/NetAddr.v, Model/NetBuild.v."""
import ipaddress
import json
import os
from unittest import mock

from harness.common import cN, cZ, cnat, cbool, clist, cpair, copt, coq_failing, coq_show, Interner, ROOT

IMPORTS = "Model.NetAddr Model.NetBuild Check.C18"
ERR = {"IndexErr": 1, "TestErr": 2, "ValueErr": 3, "KeyErr": 4, "Exhaust": 5, "Other": 9}   # 9: no model outcome (e.g. a failed internal assertion)


def dotted(n):
    return str(ipaddress.IPv4Address(n))


def to_int(s):
    return int(ipaddress.IPv4Address(s))


def classify(e):
    from avocado.core import exceptions
    if isinstance(e, IndexError):
        return "Exhaust" if "exhausted" in str(e) else "IndexErr"
    if isinstance(e, exceptions.TestError):
        return "TestErr"
    if isinstance(e, KeyError):
        return "KeyErr"
    if isinstance(e, ValueError):
        return "ValueErr"
    return "Other"      # e.g. AssertionError from VMNetconfig.validate: never a model outcome


# ------------------------------------------------------------------ arithmetic (implementation side)
def impl_mask_bit(mask_int):
    from avocado_i2n.vmnet.netconfig import VMNetconfig
    nc = VMNetconfig()
    nc.netmask = dotted(mask_int)
    return int(nc.mask_bit)


def impl_prefix_roundtrip(bits):
    from avocado_i2n.vmnet.netconfig import VMNetconfig
    nc = VMNetconfig()
    nc.net_ip = "10.0.0.0"
    nc.mask_bit = str(bits)
    return to_int(nc.netmask), int(nc.mask_bit)


def impl_network(ip, bits):
    from avocado_i2n.vmnet.netconfig import VMNetconfig
    return to_int(VMNetconfig()._get_network_ip(dotted(ip), bits))


def impl_translate(ip, net, nat, bits):
    from avocado_i2n.vmnet.netconfig import VMNetconfig
    nc = VMNetconfig()
    nc.net_ip = dotted(net)
    nc.netmask = dotted((2 ** 32 - 1) ^ (2 ** (32 - bits) - 1))
    try:
        return to_int(nc.translate_address(dotted(ip), dotted(nat)))
    except ipaddress.AddressValueError:
        return None


def impl_alloc(net, lo, hi, n):
    from avocado_i2n.vmnet.netconfig import VMNetconfig
    nc = VMNetconfig()
    # the pool as from_interface builds it from the configured "lo-hi" range (both ends included)
    iface = mock.MagicMock()
    iface.params = {"netmask": "255.255.255.0", "range": f"{lo}-{hi}"}
    iface.ip = dotted((net & 0xFFFFFF00) + 1)
    nc.from_interface(iface)
    nc.net_ip = dotted(net)
    out = []
    for _ in range(n):
        try:
            out.append(("l", to_int(nc.get_allocatable_address())))
        except IndexError:
            out.append(("r", 0))
        except ipaddress.AddressValueError:
            out.append(("r", 1))
    return out


# ------------------------------------------------------------------ network construction
def gen_build(rng, wf):
    """1-4 vms x 1-3 nics over a few random subnets. wf: distinct addresses, subnets equal
    or disjoint, static addresses outside the DHCP ranges, ranges inside the subnets."""
    nsub = rng.randint(1, 4)
    subnets = []
    while len(subnets) < nsub:
        bits = rng.choice([8, 12, 16, 20, 22, 24, 24, 24, 26, 28, 30])
        size = 2 ** (32 - bits)
        net = rng.randrange(0, 2 ** 32 // size) * size
        if rng.random() < 0.15:
            net = (2 ** 32 - size) if rng.random() < 0.5 else 0        # edges of the IPv4 space
        if wf and any(not (net + size <= n2 or n2 + s2 <= net) for n2, b2, s2, _, _ in subnets):
            continue
        if size >= 256:
            lo = rng.choice([100, 10, 50, 200])
            hi = lo + rng.choice([0, 1, 3, 20, 100])
            hi = min(hi, size - 2)
        else:
            lo = rng.randint(1, max(1, size - 2))
            hi = rng.randint(lo, max(lo, size - 2))
        if not wf and rng.random() < 0.2:
            hi = lo + rng.choice([100, 300])                          # range may leave the subnet
        subnets.append((net, bits, size, lo, hi))
    if not wf and rng.random() < 0.5 and subnets:
        n0, b0, s0, lo0, hi0 = subnets[0]
        if b0 > 8:                                                    # a wider net with the same / overlapping address
            b1 = b0 - rng.choice([1, 4, 8]) if b0 > 8 else b0
            b1 = max(b1, 1)
            s1 = 2 ** (32 - b1)
            subnets.append((n0 // s1 * s1, b1, s1, lo0, hi0))
    ifaces, used = [], set()
    nvms = rng.randint(1, 4)
    for v in range(1, nvms + 1):
        for n in range(1, rng.randint(1, 3) + 1):
            net, bits, size, lo, hi = rng.choice(subnets)
            for _ in range(50):
                off = rng.randrange(1, max(2, size - 1))
                ip = net + off
                if not wf:
                    if rng.random() < 0.15 and used:
                        ip = rng.choice(sorted(used))                 # duplicate address
                    break
                if ip not in used and not (lo <= off <= hi):
                    break
            else:
                continue
            used.add(ip)
            mask = (2 ** 32 - 1) ^ (size - 1)
            if not wf and rng.random() < 0.1:
                mask = (2 ** 32 - 1) ^ (2 ** (32 - rng.choice([8, 16, 24, 28])) - 1)   # netmask mismatch
            host = None
            if rng.random() < 0.3:
                host = net + rng.randrange(1, max(2, size - 1)) if (wf or rng.random() < 0.7) \
                    else rng.randrange(2 ** 32)
            ifaces.append({"vm": f"vm{v}", "nic": f"b{n}", "ip": ip, "mask": mask, "lo": lo, "hi": hi,
                           "host": host})
    # per subnet the "range"/"host" parameters are read from the FIRST interface only; keep wf honest
    ops = []
    keys = [(i["vm"], i["nic"]) for i in ifaces]
    for _ in range(rng.choice([0, 0, 1, 2, 4, 8])):
        if len(keys) >= 2:
            c, r = rng.sample(keys, 2)
            if c[0] != r[0] or not wf:
                ops.append([list(c), list(r)])
    return {"kind": "build", "wf": wf, "ifaces": ifaces, "ops": ops}


def is_wf(case):
    """Recomputed from the case itself (so that corpus / replay cases carry no stale flag)."""
    ifs = case["ifaces"]
    ips = [i["ip"] for i in ifs]
    if len(set(ips)) != len(ips):
        return False
    nets = {}
    for i in ifs:
        bits = bin(i["mask"]).count("1")
        if i["mask"] != (2 ** 32 - 1) ^ (2 ** (32 - bits) - 1):
            return False
        size = 2 ** (32 - bits)
        net = i["ip"] // size * size
        nets.setdefault((net, size), i)
    keys = sorted(nets)
    for a in range(len(keys)):
        for b in range(a + 1, len(keys)):
            (n1, s1), (n2, s2) = keys[a], keys[b]
            if not (n1 + s1 <= n2 or n2 + s2 <= n1):
                return False
    for i in ifs:
        bits = bin(i["mask"]).count("1")
        size = 2 ** (32 - bits)
        net = i["ip"] // size * size
        first = nets[(net, size)]
        if first["lo"] <= i["ip"] - net <= first["hi"]:
            return False
    return True


def run_build(case):
    from avocado_i2n.vmnet import VMNetwork
    from avocado_i2n.vmnet.netconfig import VMNetconfig
    from virttest.utils_params import Params
    created = []

    class RecNetconfig(VMNetconfig):
        def __init__(self):
            super().__init__()
            created.append(self)

    class Net(VMNetwork):
        new_netconfig = RecNetconfig

    params = Params()
    vms = []
    for i in case["ifaces"]:
        if i["vm"] not in vms:
            vms.append(i["vm"])
    params["vms"] = " ".join(vms)
    params["mac"] = "00:00:00:00:00:00"
    for vm in vms:
        nics = [i["nic"] for i in case["ifaces"] if i["vm"] == vm]
        params[f"nics_{vm}"] = " ".join(nics)
        for n in nics:
            params[f"role_{n}"] = n
    for i in case["ifaces"]:
        sfx = f"_{i['nic']}_{i['vm']}"
        params["ip" + sfx] = dotted(i["ip"])
        params["netmask" + sfx] = dotted(i["mask"])
        params["range" + sfx] = f"{i['lo']}-{i['hi']}"
        if i["host"] is not None:
            params["host" + sfx] = dotted(i["host"])
    mock_vms = {}

    def create_vm(vm_type, target, vm_name, vm_params, bindir):
        vm = mock.MagicMock(name=vm_name)
        vm.name = vm_name
        vm.params = vm_params
        mock_vms[vm_name] = vm
        return vm
    env = mock.MagicMock()
    env.get_vm = lambda name: mock_vms.get(name)
    env.create_vm = create_vm
    try:
        net = Net(params, env)
    except Exception as e:
        return {"build_err": classify(e), "ops": [], "state": None}
    op_out = []
    for (cvm, cnic), (rvm, rnic) in case["ops"]:
        try:
            net.reattach_interface(mock_vms[cvm], mock_vms[rvm], client_nic=f"role_{cnic}",
                                   server_nic=f"role_{rnic}")
            op_out.append(None)
        except Exception as e:
            op_out.append(classify(e))
            break
    heap = []
    for nc in created:
        heap.append({"net": to_int(nc.net_ip), "mask": to_int(nc.netmask),
                     "range": [[k, v] for k, v in nc.range.items()],
                     "host": None if nc.host_ip in (None, "") else to_int(nc.host_ip),
                     "ifaces": [[to_int(ip), f"{itf.node.name}.{itf.name}"] for ip, itf in nc.interfaces.items()]})
    reg = [[to_int(k), created.index(nc)] for k, nc in net.netconfigs.items()]
    ifs = [[k, to_int(itf.ip), created.index(itf.netconfig)] for k, itf in net.interfaces.items()]
    return {"build_err": None, "ops": op_out, "state": {"heap": heap, "reg": reg, "ifs": ifs}}


def build_term(case, out, I):
    ifaces = clist([cpair(cN(I(f"{i['vm']}.{i['nic']}")), cN(i["ip"]), cN(i["mask"]), cN(i["lo"]), cN(i["hi"]),
                          copt(cN(i["host"])) if i["host"] is not None else "None") for i in case["ifaces"]])
    ops = clist([cpair(cN(I(".".join(c))), cN(I(".".join(r)))) for c, r in case["ops"]])
    be = ERR[out["build_err"]] if out["build_err"] else 0
    oe = clist([cN(ERR[o] if o else 0) for o in out["ops"]])
    st = out["state"]
    if st is None:
        stt = cpair("[]", "[]", "[]")
    else:
        heap = clist([cpair(cN(n["net"]), cN(n["mask"]),
                            clist([cpair(cN(k), cbool(v)) for k, v in n["range"]]),
                            copt(cN(n["host"])) if n["host"] is not None else "None",
                            clist([cpair(cN(ip), cN(I(k))) for ip, k in n["ifaces"]])) for n in st["heap"]])
        reg = clist([cpair(cN(k), cnat(i)) for k, i in st["reg"]])
        ifs = clist([cpair(cN(I(k)), cpair(cN(ip), cnat(i))) for k, ip, i in st["ifs"]])
        stt = cpair(heap, reg, ifs)
    return cpair(ifaces, ops, cpair(cN(be), oe, stt), cbool(is_wf(case)))


# ------------------------------------------------------------------ run
def run(ctx, replay=None):
    rng = ctx.rng
    scale = 5 if ctx.thorough else 1
    I = Interner()
    if replay:
        builds = [replay["data"]["case"]] if replay["data"].get("case", {}).get("kind") == "build" else []
        arith = replay["data"].get("arith")
    else:
        arith = None
        builds = []
        cdir = os.path.join(ROOT, "corpus", "C18")
        for f in sorted(os.listdir(cdir)) if os.path.isdir(cdir) else []:
            builds.append(json.load(open(os.path.join(cdir, f))))
        builds += [gen_build(rng, True) for _ in range(500 * scale)]
        builds += [gen_build(rng, False) for _ in range(300 * scale)]

    groups = []   # (name, type, corr, monitor, cases(json), terms)
    if not replay or arith:
        # masks: all 33 contiguous ones + random others
        masks = [(2 ** 32 - 1) ^ (2 ** (32 - b) - 1) for b in range(33)]
        masks += [rng.randrange(2 ** 32) for _ in range(400 * scale)]
        masks += [rng.choice([0, 255]) << 24 | rng.choice([0, 255, 128]) << 16 | rng.choice([0, 255, 240]) << 8 | rng.choice([0, 1, 128, 255]) for _ in range(100)]
        mc = [(m, impl_mask_bit(m)) for m in masks]
        groups.append(("mask_bit", "mask_case", "mask_corr", "mask_monitor", mc,
                       [cpair(cN(m), cN(b)) for m, b in mc]))
        pc = [(b,) + impl_prefix_roundtrip(b) for b in range(33)]
        groups.append(("prefix->mask->prefix", "pfx_case", "pfx_corr", "pfx_monitor", pc,
                       [cpair(cN(b), cpair(cN(m), cN(b2))) for b, m, b2 in pc]))
        edge = [0, 1, 2 ** 31, 2 ** 32 - 1, 2 ** 32 - 2, 167772161]
        nc_ = []
        for _ in range(1500 * scale):
            ip = rng.choice(edge) if rng.random() < 0.1 else rng.randrange(2 ** 32)
            bits = rng.randrange(33)
            nc_.append((ip, bits, impl_network(ip, bits)))
        nc_ += [(ip, b, impl_network(ip, b)) for ip in edge for b in range(33)]
        groups.append(("network_of", "net_case", "net_corr", "net_monitor", nc_,
                       [cpair(cN(a), cN(b), cN(c)) for a, b, c in nc_]))
        tc = []
        for _ in range(1500 * scale):
            bits = rng.randrange(33)
            size = 2 ** (32 - bits)
            net = rng.randrange(2 ** 32 // size) * size
            r = rng.random()
            ip = net + rng.randrange(size) if r < 0.7 else rng.randrange(2 ** 32)
            nat = rng.choice(edge) if rng.random() < 0.15 else rng.randrange(2 ** 32)
            tc.append((ip, net, nat, bits, impl_translate(ip, net, nat, bits)))
        groups.append(("translate", "tr_case", "tr_corr", "tr_monitor", tc,
                       [cpair(cN(a), cN(b), cN(c), cN(d), copt(cZ(e)) if e is not None else "None") for a, b, c, d, e in tc]))
        ac = []
        for _ in range(300 * scale):
            net = rng.choice([0, 167772160, 2 ** 32 - 256, 2 ** 32 - 8, rng.randrange(2 ** 32)])
            lo = rng.choice([0, 1, 5, 100, 250])
            hi = lo + rng.choice([-1, 0, 1, 2, 7, 30, 100])
            n = max(0, hi - lo + 1) + 3
            ac.append((net, lo, max(hi, 0), impl_alloc(net, lo, hi, n)) if hi >= 0 else (net, lo, 0, impl_alloc(net, lo, 0, 4)))
        groups.append(("allocate", "alloc_case", "alloc_corr", "alloc_monitor", ac,
                       [cpair(cN(a), cN(b), cN(c), clist([("inl " if t == "l" else "inr ") + cN(v) for t, v in o]))
                        for a, b, c, o in ac]))
    outs = [run_build(c) for c in builds]
    if builds:
        groups.append(("build+reattach", "build_case", "build_corr", "build_monitor", list(zip(builds, outs)),
                       [build_term(c, o, I) for c, o in zip(builds, outs)]))

    dist = {}
    nt = set()
    for c, o in zip(builds, outs):
        k = ("wf" if is_wf(c) else "non-wf") + ":" + (o["build_err"] or ("ok" if all(x is None for x in o["ops"]) else "op-" + str(o["ops"][-1])))
        dist[k] = dist.get(k, 0) + 1
        if o["build_err"] is None and o["state"] and len(o["state"]["heap"]) >= 2 and \
                any(len(n["ifaces"]) >= 2 for n in o["state"]["heap"]):
            nt.add(json.dumps(c, sort_keys=True))
    ctx.coverage["input_distribution"] = dist
    total = sum(len(g[4]) for g in groups)
    ctx.count(total, len(nt))
    ctx.coverage["rule"] = ("arithmetic: all 33 prefix lengths, random and patterned netmasks, random/edge addresses "
                            "(0, 2^32-1, ...) for network_of / translate / allocate; construction: 1-4 vms x 1-3 nics over "
                            "1-4 random subnets (/8../30, incl. the edges of the IPv4 space) with DHCP ranges and host "
                            "addresses, followed by 0-8 reattachments; a non-wf stream adds duplicate addresses, overlapping "
                            "subnets, netmask mismatches, ranges leaving the subnet. Non-trivial (counted): a distinct "
                            "construction case that builds, has >= 2 netconfigs and a netconfig shared by >= 2 interfaces.")
    for name, ty, corr, mon, cases, terms in groups:
        res = coq_failing(ctx, IMPORTS, ty, terms, [corr, mon], shard=250, tag=ty)
        ctx.obligation(f"correspondence:{name}", "correspondence", not res[corr],
                       f"{len(res[corr])} of {len(cases)} cases disagree")
        monf = set(res[mon])
        ctx.sample({"group": name, "case": cases[len(cases) // 2]}, limit=6)
        for k in sorted(set(res[corr]) | monf)[:3]:
            has_input = k in monf
            model = ""
            if ty == "build_case":
                model = coq_show(ctx, IMPORTS, [f"model_outcome {terms[k]}"])
            data = {"group": name, "obligation": f"correspondence:{name}", "model": model, "interned": dict(I.ids)}
            if ty == "build_case":
                data["case"], data["impl"] = cases[k]
            else:
                data["arith"] = {"group": name, "case": cases[k]}
            ctx.fail(f"C18:{name}:{'monitor' if has_input else 'correspondence'}",
                     (f"{name}: the implementation's result violates the property's predicate" if has_input else
                      f"{name}: implementation and model disagree"), data, has_input)
    ctx.explanation.append(
        "Theorems: netmask<->prefix round trips (finite domain 0..32 decided by vm_compute and lifted), characterisation "
        "of network membership, exact allocation for every range, translation offset / failure condition / landing in "
        "the target subnet; C18_build_subnet_partial is PARTIAL: it proves, for all parameters and reattach sequences, "
        "that recorded interfaces lie inside their netconfig's network; the full consistency statement (exactly one "
        "registered netconfig per interface, no duplicate addresses) for well-formed configurations is evaluated as a "
        "monitor on the implementation's state and its failure outside well-formed configurations is shown by two "
        "Examples (duplicate address, overlapping subnet). Dotted-quad parsing/printing is harness glue (ipaddress).")
    ctx.assumptions += ["reattach_interface is modelled without proxy nic", "ipaddress (standard library) is trusted",
                        "netmask equality is modelled on numbers; the code compares the parameter strings"]
