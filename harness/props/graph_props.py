"""Shared body of the graph checks C06, C07, C09: real parses (in worker processes) of a seed-rotated slice
of a deterministic family of selections, exported to Model/Graph.v and judged by the verified checkers."""
import concurrent.futures

from harness import graphx
from harness.common import clist, cpair, coq_failing

IMPORTS = "Model.Graph Check.Graph"
RESTRS = ["normal", "minimal", "leaves..tutorial1", "leaves..tutorial2", "normal..tutorial3", "leaves..tutorial_gui", "leaves..tutorial_get",
          "leaves..tutorial_finale", "leaves..tutorial3.remote..no_object..control", "nonleaves..connect", "all..customize",
          "nonleaves..on_customize", "leaves..quicktest", "normal..nongui", "leaves..tutorial_get..implicit_both",
          "all..internal..linux_virtuser", "leaves..tutorial_gui..client_clicked", "normal,minimal", "leaves..tutorial1,tutorial3.no_remote"]
NETS = ["net1", "net0", "net1 net2", "net1 net2 net3", "cluster1.net6 cluster1.net7", "net1 cluster1.net6", "cluster1.net6 cluster2.net6",
        "net2 net4", "net5 net1", "net1 net5", "net5 net3 net1", "net3 net5"]          # net3 and net5 restrict the vm variants they support
VMRS = [graphx.VMR, {"vm1": "only Fedora\n", "vm2": "only Win7\n", "vm3": "only Kali\n"},
        {"vm1": "only CentOS\n", "vm2": "only Win10\n", "vm3": "only Ubuntu\n"}, {}, {"vm1": "only Fedora\n"}]   # {}: multi-variant products
FAIL_NAMES = {1: "cycle-or-rank", 2: "not-exactly-one-root-or-unreachable", 3: "edge-not-on-both-ends", 4: "duplicate-identity",
              5: "producer-missing-duplicated-or-spurious", 6: "net-or-vms-mismatch", 7: "clones-inconsistent", 8: "duplicate-name",
              9: "bridge-asymmetric-or-unshared", 10: "bridge-missing"}


# tests selected together: single- and multi-producer dependants with one, the other or both of their producers
COMBINED = [("leaves..tutorial_get..explicit_noop", "leaves..tutorial_get..implicit_both"),
            ("leaves..tutorial_gui..client_clicked", "leaves..tutorial_get..implicit_both"),
            ("leaves..tutorial_get..explicit_clicked", "leaves..tutorial_finale"),
            ("leaves..tutorial_gui..client_noop", "leaves..tutorial_finale"),
            ("leaves..tutorial1", "leaves..tutorial_get..implicit_both"),
            ("leaves..tutorial_get..explicit_noop", "leaves..tutorial_gui"),
            ("nonleaves..connect", "leaves..tutorial3"),
            ("leaves..tutorial_gui", "leaves..tutorial_get"),
            ("leaves..quicktest", "leaves..tutorial2"),
            ("leaves..tutorial_get..explicit_clicked", "leaves..tutorial_get..implicit_both")]


# selections from the extended scratch suite (graphx.EXTRA_TESTS): two-object dependencies
EXT_RESTRS = ["ext:leaves..xt_deep", "ext:leaves..xt_deep,leaves..tutorial_finale", "ext:leaves..xt_both", "ext:leaves..xt_mixed", "ext:leaves..xt_chain", "ext:leaves", "ext:leaves..xt_both,leaves..tutorial3",
              "ext:leaves..xt_mixed,leaves..xt_both"]


CORPUS = [("leaves..tutorial1", "net5 net1", {}),                      # restricted worker first: fixed fc23fe8
          ("leaves..tutorial_gui", "net5 net3 net1", {"vm1": "only Fedora\n"}),
          ("ext:leaves", "net1 net2", graphx.VMR),                        # every test of the extended scratch suite
          # an exclusion list written with blanks ("no A, B"): every listed variant is excluded, also in lazy expansion
          ("leaves..tutorial_gui", "net1 net2", {"vm1": "only CentOS\n", "vm2": "no WinXP, Win7\n", "vm3": "only Ubuntu\n"})]


def family(rng, n, mode, thorough=False):
    jobs = []
    combos = [(r, nets, v) for r in RESTRS for nets in NETS for v in range(len(VMRS))]
    rng.shuffle(combos)
    for r, nets, v in combos[:n]:
        jobs.append((r, nets, VMRS[v], mode, rng.randrange(10 ** 6), None))
    # corpus of selections that exposed defects before (run first in every tier)
    for r, nets, vmr in CORPUS:
        jobs.append((r, nets, vmr, mode, 1, None))
    ext = [(r, nets) for r in EXT_RESTRS for nets in ("net1", "net1 net2", "net1 cluster1.net6", "net1 net2 net3")]
    rng.shuffle(ext)
    for r, nets in ext[: (len(ext) if thorough else 3)]:
        jobs.append((r, nets, graphx.VMR, mode, rng.randrange(10 ** 6), None))
    return jobs


def run_jobs(ctx, jobs):
    jobs = [j[:5] + (ctx.work,) for j in jobs]
    with concurrent.futures.ProcessPoolExecutor(max_workers=12) as ex:
        return list(ex.map(graphx.parse_job, jobs))


UPDATES = [(("vm1",), "net1 net2 net4", "customize", "connect"), (("vm1",), "net1 net2 net3", "install", "customize"),
           (("vm2",), "net1 net2", "customize", "customize"), (("vm1", "vm3"), "net1 net2 net3", "customize", "on_customize"),
           (("vm1",), "cluster1.net6 cluster1.net7 cluster2.net6", "install", "connect"), (("vm3",), "net1 net2 net3 net4", "customize", "on_customize")]


def bridging_part(ctx, replay):
    """C09: bridge_with_node against Model/Bridge.v, and the graphs the update tool bridges in pairs"""
    from harness import bridgex
    rng = ctx.rng
    cases = []
    if replay and "ops" in replay.get("data", {}):
        d = replay["data"]
        import random

        class Fixed(random.Random):
            pass
        nodes = bridgex.make_class(d["k"])
        c = bridgex.one_case(rng, "random")
        # replay exactly: rebuild from the stored operations
        nodes = bridgex.make_class(d["k"])
        for a, b in d["ops"]:
            nodes[a].bridge_with_node(nodes[b])
        idx = {id(n): i for i, n in enumerate(nodes)}
        links = [[idx[id(m)] for m in n.bridged_nodes] for n in nodes]
        cls = [min(j for j in range(d["k"]) if nodes[j]._dropped_setup_nodes is nodes[i]._dropped_setup_nodes) for i in range(d["k"])]
        from harness.common import cnat
        cases = [{"k": d["k"], "shape": d.get("shape", "random"), "ops": [tuple(o) for o in d["ops"]], "links": links, "classes": cls,
                  "must_unify": d.get("must_unify", False), "registers_consistent": True,
                  "term": cpair(cnat(d["k"]), clist([cpair(cnat(a), cnat(b)) for a, b in d["ops"]]),
                                clist([clist([cnat(x) for x in l]) for l in links]), clist([cnat(x) for x in cls]))}]
    elif not replay:
        n = 600 if ctx.thorough else 150
        cases = [bridgex.one_case(rng, ("random", "parser", "update")[k % 3]) for k in range(n)]
    if cases:
        res = coq_failing(ctx, "Model.Bridge Check.Bridge", "bridge_case", [c["term"] for c in cases], ["bridge_corr", "bridge_unified"],
                          shard=max(1, len(cases) // 8 + 1), tag="bridge")
        ctx.obligation("correspondence:TestNode.bridge_with_node", "correspondence", not res["bridge_corr"],
                       f"{len(res['bridge_corr'])} of {len(cases)} bridging sequences disagree with Model/Bridge.v")
        split = [k for k in set(res["bridge_unified"]) if cases[k]["must_unify"]]
        incons = [k for k, c in enumerate(cases) if not c["registers_consistent"]]
        ctx.obligation("monitor:bridged-class-shares-registers", "monitor", not split and not incons,
                       f"{len(split)} parser/update-shaped bridging sequences leave the class on several register sets; {len(incons)} alias the four registers differently")
        for k in sorted(split)[:1] + incons[:1]:
            c = cases[k]
            ctx.fail("C09:bridged-nodes-do-not-share-registers", f"after bridging in the {c['shape']} order, nodes of one class hold different visit registers: classes {c['classes']}",
                     {"k": c["k"], "shape": c["shape"], "ops": c["ops"], "links": c["links"], "classes": c["classes"], "must_unify": c["must_unify"]}, True)
        for k in [k for k in res["bridge_corr"] if k not in split][:1]:
            c = cases[k]
            ctx.fail("C09:bridging:correspondence", "bridge_with_node differs from Model/Bridge.v on a sequence of calls",
                     {"k": c["k"], "shape": c["shape"], "ops": c["ops"], "links": c["links"], "classes": c["classes"], "must_unify": False,
                      "obligation": "correspondence:TestNode.bridge_with_node"}, False)
        ctx.count(len(cases), sum(1 for c in cases if c["k"] >= 3))
        ctx.coverage["bridging_sequences"] = {sh: sum(1 for c in cases if c["shape"] == sh) for sh in ("random", "parser", "update")}
    # graphs assembled by the update tool
    ups = []
    if replay and "update" in replay.get("data", {}):
        d = replay["data"]
        ups = [(tuple(d["update"][0]), d["nets"], d["update"][1], d["update"][2])]
    elif not replay:
        ups = list(UPDATES) if ctx.thorough else rng.sample(UPDATES, 3)
    if ups:
        jobs = [(vms, nets, fr, to, rng.randrange(10 ** 6), ctx.work) for vms, nets, fr, to in ups]
        with concurrent.futures.ProcessPoolExecutor(max_workers=6) as ex:
            outs = list(ex.map(graphx.update_job, jobs))
        errs = [o for o in outs if "error" in o]
        ctx.obligation("update-tool:graph-captured", "monitor", not errs, "; ".join(o["error"][:80] for o in errs[:2]))
        good = [o for o in outs if "graph" in o]
        if good:
            terms = [cpair(o["graph"], clist(o["workers"])) for o in good]
            res = coq_failing(ctx, IMPORTS, "copies_case", terms, ["c09_bridges"], shard=1, tag="upd", timeout=900)
            ctx.obligation("checker:update-tool-graph-bridged", "monitor", not res["c09_bridges"],
                           f"{len(res['c09_bridges'])} of {len(good)} graphs assembled by the update tool are not completely / symmetrically bridged with shared registers")
            for k in res["c09_bridges"][:1]:
                o = good[k]
                ctx.fail("C09:update-tool-copies-unlinked", f"the graph the update tool builds for {o['restr']} on {o['nets']} has worker copies that are not linked or do not share their registers",
                         {"update": o["update"], "nets": o["nets"], "info": o["info"]}, True)
            ctx.count(len(good), sum(1 for o in good if len(o["info"]["workers"]) > 2))
        ctx.coverage["update_tool_graphs"] = [{"what": o["restr"], "nets": o["nets"], "nodes": o.get("info", {}).get("nodes")} for o in outs]


def run_property(ctx, prop, replay=None):
    rng = ctx.rng
    mode = {"C06": "plain", "C07": "declared", "C09": "lazy"}[prop]
    if prop == "C09":
        bridging_part(ctx, replay)
        if replay and ("ops" in replay.get("data", {}) or "update" in replay.get("data", {})):
            return
    if replay and "restr" in replay.get("data", {}):
        d = replay["data"]
        jobs = [(d["restr"], d["nets"], d["vmr"], "subsets" if d.get("subsets") else mode, 1, None)]
    else:
        n = {"C06": 12, "C07": 12, "C09": 8}[prop] * (8 if ctx.thorough else 1)
        jobs = family(rng, n, mode, ctx.thorough)
        if prop == "C07":
            pairs = [(a + "," + b, nets) for a, b in COMBINED for nets in ("net1", "net1 net2")]
            if not ctx.thorough:
                pairs = pairs[:2] + rng.sample(pairs[2:], 4)
            jobs += [(r, nets, graphx.VMR, "subsets", 1, None) for r, nets in pairs]
        if prop == "C09":
            jobs += [(r, nets, graphx.VMR, "twice", 1, None) for r, nets in (("normal", "net1 net2"), ("leaves..tutorial_get", "net1"))]
    outs = run_jobs(ctx, jobs)
    good = [o for o in outs if "graph" in o]
    errs = [o for o in outs if "error" in o]
    ctx.obligation("parse:no-unexpected-error", "monitor", not errs, "; ".join(o["error"][:80] for o in errs[:2]))
    for o in errs[:1]:
        ctx.fail(f"{prop}:parse-error", "parse_object_trees raised on a valid selection",
                 {"restr": o["restr"], "nets": o["nets"], "vmr": o["vmr"], "error": o["error"]}, True)
    terms = [cpair(o["graph"], o["ranks"]) for o in good]
    checker = {"C06": "c06_ok", "C07": "c07_ok", "C09": None}[prop]
    if checker and terms:
        res = coq_failing(ctx, IMPORTS, "graph_case", terms, [checker], shard=max(1, len(terms) // 12 + 1), tag="graph", timeout=900)
        ctx.obligation(f"checker:{checker}", "monitor", not res[checker], f"{len(res[checker])} of {len(terms)} parsed graphs rejected by the verified checker")
        for k in res[checker][:2]:
            o = good[k]
            from harness.common import coq_show
            why = coq_show(ctx, IMPORTS, [f"graph_failures ({terms[k]})"], tag="why")
            import re
            codes = [int(x) for x in re.findall(r"(\d+)%N", why)]
            name = FAIL_NAMES.get(codes[0], "rejected") if codes else "rejected"
            ctx.fail(f"{prop}:graph:{name}", f"the parsed graph for '{o['restr']}' on {o['nets']} is not well formed: {[FAIL_NAMES.get(c, c) for c in codes]}",
                     {"restr": o["restr"], "nets": o["nets"], "vmr": o["vmr"], "failed_checks": [FAIL_NAMES.get(c, c) for c in codes], "info": o["info"]}, True)
    if prop == "C07":
        sub = [o for o in good if o["mode"] == "subsets"]
        sbad = [o for o in sub if o.get("subset_bad")]
        ctx.obligation("monitor:dependencies-independent-of-selection", "monitor", not sbad,
                       f"{len(sbad)} of {len(sub)} combined selections give a test other dependencies than it has when selected alone")
        for o in sbad[:1]:
            ctx.fail("C07:dependencies-depend-on-selection", f"in '{o['restr']}' on {o['nets']} a test has other dependencies than when it is selected alone: {o['subset_bad'][:2]}",
                     {"restr": o["restr"], "nets": o["nets"], "vmr": o["vmr"], "subsets": True, "mismatches": o["subset_bad"]}, True)
        ctx.coverage["combined_selections"] = [{"restr": o["restr"], "nets": o["nets"]} for o in sub]
        bad = [o for o in good if o.get("declared_bad")]
        ctx.obligation("monitor:declarations-preserved", "monitor", not bad, f"{len(bad)} graphs with a node whose get/set parameters differ from the flat test's")
        for o in bad[:1]:
            ctx.fail("C07:declaration-changed", "a composed node does not carry the get/set declarations of its flat test",
                     {"restr": o["restr"], "nets": o["nets"], "vmr": o["vmr"], "mismatches": o["declared_bad"]}, True)
    if prop == "C09":
        cterms = [cpair(o["graph"], clist(o["workers"])) for o in good]
        res = coq_failing(ctx, IMPORTS, "copies_case", cterms, ["c09_ok"], shard=max(1, len(cterms) // 12 + 1), tag="copies", timeout=900)
        ctx.obligation("checker:c09_ok", "monitor", not res["c09_ok"], f"{len(res['c09_ok'])} of {len(cterms)} graphs with non-equivalent or badly linked worker copies")
        for k in res["c09_ok"][:2]:
            o = good[k]
            ctx.fail("C09:copies-not-equivalent-or-unlinked", f"worker copies of '{o['restr']}' on {o['nets']} are not equivalent / symmetric / sharing registers",
                     {"restr": o["restr"], "nets": o["nets"], "vmr": o["vmr"], "info": o["info"]}, True)
        lazy = [o for o in good if o["mode"] == "lazy"]
        wrong = [o for o in lazy if o.get("lazy_wrong") or o.get("lazy_missing_forms")]
        ctx.obligation("monitor:lazy-equals-eager", "monitor", not wrong, f"{len(wrong)} of {len(lazy)} lazy traversals expanded nodes with other dependencies or missed a test")
        for o in wrong[:1]:
            ctx.fail("C09:lazy-differs-from-eager", "a lazily expanded test has other dependencies than in the eager graph, or a selected test was never expanded",
                     {"restr": o["restr"], "nets": o["nets"], "vmr": o["vmr"], "wrong": o.get("lazy_wrong"), "missing": o.get("lazy_missing_forms")}, True)
        lterms = [cpair(o["lazy_graph"], o["lazy_ranks"]) for o in lazy if "lazy_graph" in o]
        if lterms:
            res = coq_failing(ctx, IMPORTS, "graph_case", lterms, ["c06_ok"], shard=max(1, len(lterms) // 12 + 1), tag="lazyg", timeout=900)
            ctx.obligation("checker:lazy-graph-well-formed", "monitor", not res["c06_ok"], f"{len(res['c06_ok'])} of {len(lterms)} lazily grown graphs rejected")
            for k in res["c06_ok"][:1]:
                o = [x for x in lazy if "lazy_graph" in x][k]
                ctx.fail("C09:lazy-graph-ill-formed", "the graph left by a lazy traversal is not well formed",
                         {"restr": o["restr"], "nets": o["nets"], "vmr": o["vmr"]}, True)
        twice = [o for o in good if o["mode"] == "twice"]
        nondet = [o for o in twice if not o.get("same")]
        ctx.obligation("monitor:parsing-deterministic", "monitor", not nondet, f"{len(nondet)} of {len(twice)} double parses differ")
        for o in nondet[:1]:
            ctx.fail("C09:parse-not-deterministic", "parsing the same input twice gave different graphs", {"restr": o["restr"], "nets": o["nets"], "vmr": o["vmr"]}, True)
        ctx.coverage["lazy_runs_with_several_workers_expanding"] = sum(1 for o in lazy if len(o.get("lazy_workers_expanded", [])) > 1)
    ctx.count(len(outs), sum(1 for o in good if len(o["info"]["workers"]) > 1))
    ctx.coverage["graphs"] = [{"restr": o["restr"], "nets": o["nets"], "nodes": o.get("info", {}).get("nodes"), "empty": o.get("empty", False)} for o in outs][:40]
    ctx.coverage["empty_selections"] = sum(1 for o in outs if o.get("empty"))
    if good:
        ctx.sample({"restr": good[0]["restr"], "nets": good[0]["nets"], "info": good[0]["info"]})
    ctx.coverage["rule"] = (f"shipped suite: {len(RESTRS)} restrictions (single tests, sets, '..' and ',' forms, multi-vm and multi-producer tests) x {len(NETS)} worker sets "
                            f"(1-3 lxc, serial, remote clusters, mixed) x {len(VMRS)} vm variant sets = {len(RESTRS) * len(NETS) * len(VMRS)} selections; each run parses a "
                            "seed-rotated slice with the real parser in worker processes. Non-trivial: graphs with more than one worker.")
    ctx.assumptions += ["translation validation: the verified checkers judge the graphs the real parser produced for the explored selections; the parser itself is not modelled",
                        "the exporter (harness code) reads nodes, edges, objects, get/set states, bridges and register identities from the real objects"]
