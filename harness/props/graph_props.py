"""Shared body of the graph checks C06, C07, C09: real parses (in worker processes) of a seed-rotated slice
of a deterministic family of selections, exported to Model/Graph.v and judged by the verified checkers."""
import concurrent.futures

from harness import graphx
from harness.common import clist, cpair, coq_failing

IMPORTS = "Model.Graph Check.Graph"
RESTRS = ["normal", "minimal", "leaves..tutorial1", "leaves..tutorial2", "normal..tutorial3", "leaves..tutorial_gui", "leaves..tutorial_get",
          "leaves..tutorial_finale", "leaves..tutorial3.remote..no_object..control", "nonleaves..connect", "all..customize",
          "nonleaves..on_customize", "leaves..quicktest", "normal..nongui", "leaves..tutorial_get..implicit_both",
          "all..internal..linux_virtuser", "leaves..tutorial_gui..client_clicked", "normal,minimal", "leaves..tutorial1,tutorial3.no_remote"]
NETS = ["net1", "net0", "net1 net2", "net1 net2 net3", "cluster1.net6 cluster1.net7", "net1 cluster1.net6", "cluster1.net6 cluster2.net6",
        "net2 net4"]
VMRS = [graphx.VMR, {"vm1": "only Fedora\n", "vm2": "only Win7\n", "vm3": "only Kali\n"},
        {"vm1": "only CentOS\n", "vm2": "only Win10\n", "vm3": "only Ubuntu\n"}]
FAIL_NAMES = {1: "cycle-or-rank", 2: "not-exactly-one-root-or-unreachable", 3: "edge-not-on-both-ends", 4: "duplicate-identity",
              5: "producer-missing-duplicated-or-spurious", 6: "net-or-vms-mismatch", 7: "clones-inconsistent", 8: "duplicate-name",
              9: "bridge-asymmetric-or-unshared", 10: "bridge-missing"}


def family(rng, n, mode):
    jobs = []
    combos = [(r, nets, v) for r in RESTRS for nets in NETS for v in range(len(VMRS))]
    rng.shuffle(combos)
    for r, nets, v in combos[:n]:
        jobs.append((r, nets, VMRS[v], mode, rng.randrange(10 ** 6), None))
    return jobs


def run_jobs(ctx, jobs):
    jobs = [j[:5] + (ctx.work,) for j in jobs]
    with concurrent.futures.ProcessPoolExecutor(max_workers=12) as ex:
        return list(ex.map(graphx.parse_job, jobs))


def run_property(ctx, prop, replay=None):
    rng = ctx.rng
    mode = {"C06": "plain", "C07": "declared", "C09": "lazy"}[prop]
    if replay and "restr" in replay.get("data", {}):
        d = replay["data"]
        jobs = [(d["restr"], d["nets"], d["vmr"], mode, 1, None)]
    else:
        n = {"C06": 12, "C07": 12, "C09": 8}[prop] * (8 if ctx.thorough else 1)
        jobs = family(rng, n, mode)
        if prop == "C09":
            jobs += [(r, nets, graphx.VMR, "twice", 1, None) for r, nets in (("normal", "net1 net2"), ("leaves..tutorial_get", "net1"))]
    outs = run_jobs(ctx, jobs)
    good = [o for o in outs if "graph" in o]
    errs = [o for o in outs if "error" in o]
    ctx.obligation("parse:no-unexpected-error", "monitor", not errs, "; ".join(o["error"][:80] for o in errs[:2]))
    for o in errs[:1]:
        ctx.fail(f"{prop}:parse-error", "parse_object_trees raised on a valid selection",
                 {"restr": o["restr"], "nets": o["nets"], "vmr": o["vmr"], "error": o["error"]}, True)
    terms = [cpair(o["graph"], o["ranks"]) for o in good]
    checker = {"C06": "c06_ok", "C07": "c07_ok", "C09": None}[prop]
    if checker and terms:
        res = coq_failing(ctx, IMPORTS, "graph_case", terms, [checker], shard=max(1, len(terms) // 12 + 1), tag="graph", timeout=900)
        ctx.obligation(f"checker:{checker}", "monitor", not res[checker], f"{len(res[checker])} of {len(terms)} parsed graphs rejected by the verified checker")
        for k in res[checker][:2]:
            o = good[k]
            from harness.common import coq_show
            why = coq_show(ctx, IMPORTS, [f"graph_failures ({terms[k]})"], tag="why")
            import re
            codes = [int(x) for x in re.findall(r"(\d+)%N", why)]
            name = FAIL_NAMES.get(codes[0], "rejected") if codes else "rejected"
            ctx.fail(f"{prop}:graph:{name}", f"the parsed graph for '{o['restr']}' on {o['nets']} is not well formed: {[FAIL_NAMES.get(c, c) for c in codes]}",
                     {"restr": o["restr"], "nets": o["nets"], "vmr": o["vmr"], "failed_checks": [FAIL_NAMES.get(c, c) for c in codes], "info": o["info"]}, True)
    if prop == "C07":
        bad = [o for o in good if o.get("declared_bad")]
        ctx.obligation("monitor:declarations-preserved", "monitor", not bad, f"{len(bad)} graphs with a node whose get/set parameters differ from the flat test's")
        for o in bad[:1]:
            ctx.fail("C07:declaration-changed", "a composed node does not carry the get/set declarations of its flat test",
                     {"restr": o["restr"], "nets": o["nets"], "vmr": o["vmr"], "mismatches": o["declared_bad"]}, True)
    if prop == "C09":
        cterms = [cpair(o["graph"], clist(o["workers"])) for o in good]
        res = coq_failing(ctx, IMPORTS, "copies_case", cterms, ["c09_ok"], shard=max(1, len(cterms) // 12 + 1), tag="copies", timeout=900)
        ctx.obligation("checker:c09_ok", "monitor", not res["c09_ok"], f"{len(res['c09_ok'])} of {len(cterms)} graphs with non-equivalent or badly linked worker copies")
        for k in res["c09_ok"][:2]:
            o = good[k]
            ctx.fail("C09:copies-not-equivalent-or-unlinked", f"worker copies of '{o['restr']}' on {o['nets']} are not equivalent / symmetric / sharing registers",
                     {"restr": o["restr"], "nets": o["nets"], "vmr": o["vmr"], "info": o["info"]}, True)
        lazy = [o for o in good if o["mode"] == "lazy"]
        wrong = [o for o in lazy if o.get("lazy_wrong") or o.get("lazy_missing_forms")]
        ctx.obligation("monitor:lazy-equals-eager", "monitor", not wrong, f"{len(wrong)} of {len(lazy)} lazy traversals expanded nodes with other dependencies or missed a test")
        for o in wrong[:1]:
            ctx.fail("C09:lazy-differs-from-eager", "a lazily expanded test has other dependencies than in the eager graph, or a selected test was never expanded",
                     {"restr": o["restr"], "nets": o["nets"], "vmr": o["vmr"], "wrong": o.get("lazy_wrong"), "missing": o.get("lazy_missing_forms")}, True)
        lterms = [cpair(o["lazy_graph"], o["lazy_ranks"]) for o in lazy if "lazy_graph" in o]
        if lterms:
            res = coq_failing(ctx, IMPORTS, "graph_case", lterms, ["c06_ok"], shard=max(1, len(lterms) // 12 + 1), tag="lazyg", timeout=900)
            ctx.obligation("checker:lazy-graph-well-formed", "monitor", not res["c06_ok"], f"{len(res['c06_ok'])} of {len(lterms)} lazily grown graphs rejected")
            for k in res["c06_ok"][:1]:
                o = [x for x in lazy if "lazy_graph" in x][k]
                ctx.fail("C09:lazy-graph-ill-formed", "the graph left by a lazy traversal is not well formed",
                         {"restr": o["restr"], "nets": o["nets"], "vmr": o["vmr"]}, True)
        twice = [o for o in good if o["mode"] == "twice"]
        nondet = [o for o in twice if not o.get("same")]
        ctx.obligation("monitor:parsing-deterministic", "monitor", not nondet, f"{len(nondet)} of {len(twice)} double parses differ")
        for o in nondet[:1]:
            ctx.fail("C09:parse-not-deterministic", "parsing the same input twice gave different graphs", {"restr": o["restr"], "nets": o["nets"], "vmr": o["vmr"]}, True)
        ctx.coverage["lazy_runs_with_several_workers_expanding"] = sum(1 for o in lazy if len(o.get("lazy_workers_expanded", [])) > 1)
    ctx.count(len(outs), sum(1 for o in good if len(o["info"]["workers"]) > 1))
    ctx.coverage["graphs"] = [{"restr": o["restr"], "nets": o["nets"], "nodes": o.get("info", {}).get("nodes"), "empty": o.get("empty", False)} for o in outs][:40]
    ctx.coverage["empty_selections"] = sum(1 for o in outs if o.get("empty"))
    if good:
        ctx.sample({"restr": good[0]["restr"], "nets": good[0]["nets"], "info": good[0]["info"]})
    ctx.coverage["rule"] = (f"shipped suite: {len(RESTRS)} restrictions (single tests, sets, '..' and ',' forms, multi-vm and multi-producer tests) x {len(NETS)} worker sets "
                            f"(1-3 lxc, serial, remote clusters, mixed) x {len(VMRS)} vm variant sets = {len(RESTRS) * len(NETS) * len(VMRS)} selections; each run parses a "
                            "seed-rotated slice with the real parser in worker processes. Non-trivial: graphs with more than one worker.")
    ctx.assumptions += ["translation validation: the verified checkers judge the graphs the real parser produced for the explored selections; the parser itself is not modelled",
                        "the exporter (harness code) reads nodes, edges, objects, get/set states, bridges and register identities from the real objects"]
