#!/bin/bash
# run every registered check (quick tier by default) on the current tree, a few at a time
tier="${1:-quick}"
cd "$(dirname "$0")/.."
ids=$(python3 -c "import json; print(' '.join(c['property_id'] for c in json.load(open('MANIFEST.json'))['checks']))")
mkdir -p .work/logs
echo $ids | tr ' ' '\n' | xargs -P 4 -I{} sh -c "./check {} --tier $tier > .work/logs/{}.log 2>&1; echo {} exit=\$?; grep -h 'VIOLATION\|KNOWN-FINDING\|^\[C' .work/logs/{}.log"
