#!/usr/bin/env python3
"""Writes /verif/MANIFEST.json from the table below (kept in one place so that the
manifest stays valid while properties are added)."""
import json
import os

ROOT = os.path.dirname(os.path.dirname(os.path.abspath(__file__)))
ALL = [f"C{i:02d}" for i in range(1, 21)]

COMMON_NOTE = ("Trusted: Coq 8.16.1 kernel (+ vm_compute), no axioms (Print Assumptions closed for every theorem, "
               "re-checked on each run), the hand-written Gallina model relative to the Python (tied by the "
               "correspondence check run on every invocation: model evaluated inside Coq on generated cases and "
               "compared with the implementation), the harness glue (case printing, canonicalisation). ")

TRAV_NOTE = COMMON_NOTE + "Static (fully parsed) graphs only; synthetic graphs are built from real TestNode/TestObject/TestWorker/TestGraph objects with the recipe replaced by a fixed parameter dictionary and the parse of the creation pre-node replaced by a stub node; the coroutines are resumed by hand (one atomic section per resume); store semantics shared by model, fake door and stub task is an assumption (PASS puts the set states into the worker's own pool, a scan reads own and shared pools, unset removes from the own pool); the relations the code evaluates on names (worker id in name, scope strings, location substrings, bridged form, prefix priority) are exported from the real objects by the harness's own code. occupied_wait is modelled with Coq's primitive binary64 floats (PrimFloat, a kernel primitive listed by Print Assumptions; no axiom is declared). A share of the schedules is a discrete-event simulation in which every test lasts less than its test_timeout (C04: 70%). Lazy (on-demand) parsing is outside the model: a few traversals of the shipped suite with the real parser are run per check and judged by the property monitors only."

GRAPH_NOTE = COMMON_NOTE + "Translation validation: the parser (graph.py parse_* functions, params_parser, the Cartesian parser) is not modelled; each explored selection is parsed for real and the exported graph is judged by checkers whose soundness is proved. The exporter (harness code) reads nodes, edges with their object sets, per-object get/set states, clones, bridges and register identities (Python id) from the real objects; the rank certificate is computed by the harness and only checked."

CHECKS = {
    "C06": dict(
        engine="corr-graph",
        technique="Coq proof of the soundness of executable graph checkers (rank certificate => acyclic; unique parentless root + ranks => all reachable, by strong induction; edge symmetry; unique identities; exactly one same-worker producer per required state and no spurious edge; one net / named vms) + translation validation: the checkers are evaluated on the real parser's graphs",
        text=('PARTIAL (translation validation). Proved for every graph the checker accepts: no cycle; exactly one root, without parents, from which every node is reachable; every dependency recorded on both ends with the same objects; identities pairwise different; for every required (object, state) of a non-flat, non-clone-source node exactly one parent of the same worker based on that object and producing exactly that state; every other edge leads to the shared root from the node creating that object; one network object and exactly the vms the parameters name. The checker is run on eager graphs of a seed-rotated slice of 1140 selections of the shipped suite per run (19 restrictions x 12 worker sets incl. restricting workers net3/net5 x 5 vm variant sets incl. none), on selections of an extended scratch copy of the suite with two-object dependencies (graphx.EXTRA_TESTS), on a corpus of selections that exposed defects (restricted worker first: fixed fc23fe8) and, in C09, on graphs grown lazily.'),
        note=GRAPH_NOTE,
        design="§5 C06"),
    "C07": dict(
        engine="corr-graph",
        technique="Coq proof of checker soundness (none missing / duplicated / spurious per declared get state; clones pairwise different, source without dependants) + translation validation on the real parser's graphs + comparison of every composed node's get/set declarations with the flat Cartesian universe",
        text=('PARTIAL (translation validation). Proved for accepted graphs: every declared dependency of a node is represented by exactly one producing parent of the same worker, no dependency exists without a matching get/set pair, a clone source has pairwise distinct clones requiring different states and keeps no dependants. Checked per explored selection: the checker accepts; node names are unique per graph (shared setup represented once per worker); every non-clone composed node carries exactly the get_state/set_state parameters of the flat test it was composed from; selection independence: in combined selections (A,B) every test of A alone and of B alone has the same dependencies as in the combined graph (names compared without the test-set component, clone sources skipped).'),
        note=GRAPH_NOTE,
        design="§5 C07"),
    "C09": dict(
        engine="corr-graph",
        technique='Coq proof (pointer model of bridge_with_node: a node joining a class that shares one register set shares it too, by induction over the class; checker soundness for symmetric, typed, register-sharing links) + translation validation: worker copies mirror each other, lazy traversal graph is a sub-graph of the eager one with identical dependencies, double parse identical',
        text=("PARTIAL. Proved over Model/Bridge.v (pointer model of bridge_with_node, compared with the real method on bridging sequences in parser, update-tool and random order): C09_joined_class_shares_registers (a new node bridged with every node of its form leaves the class on one register set, whatever the class shared before) and C09_all_pairs_class_shares_registers (the update tool's all-ordered-pairs loop, for every class and every earlier bridging in which the first node agrees with its links); checker soundness: accepted links are symmetric, between equal forms, with identical register identity; C09_copies_mirror_each_other: an accepted graph gives every node a mirror with mirrored dependencies for every other worker exactly unless that worker's restrictions exclude one of its vm variants. Checked on real graphs (parser and update tool): copies_equiv, all equal forms of different workers are linked; after a lazy traversal (real parser, randomly delayed stub tests) every expanded node has exactly the eager graph's dependencies, every test form was expanded by some worker, and the grown graph passes the C06 checker; two parses of the same input are identical including prefixes."),
        note=GRAPH_NOTE,
        design="§5 C09"),
    "C01": dict(
        engine="corr-trace",
        technique="Coq proof of the decision links (start needs a positive run decision; a clean scan saw every set state in own/shared pool; a passing run leaves its states in the own pool) + trace refinement: hand-driven real coroutines vs the Gallina traversal model, section by section; availability itself is a monitor on the implementation's pools",
        text=("PARTIAL: proved for the plain sequential configuration, REFUTED (known findings) for several workers. For any number of workers, every graph meeting fw_ok_b (checked on every exported graph), pool population and schedule: whenever a test is started, every worker named as a source in its get locations has a PASS result on a copy of a parent, and every unmarked state that copy sets is in that worker's own pool, then and for the rest of the run (C01_named_sources_hold_the_states, Proofs/TraverseSrc.v). Proved over Model/Traverse*.v: C01_available_at_start_single_worker (Proofs/TraverseAvail.v) - for every graph meeting simple_b (one worker, no bridged copies, no state marked for removal, no permanent-object install, own and shared pool in scope; evaluated on the exported single-worker graphs), every initial pool population and every schedule: right after the section that starts a test, every state an ordinary own parent sets is in the own or shared pool, unless that parent has results none of which is a PASS; plus the links of the availability argument for all graphs/states (C01_*_partial). The end-to-end statement is false of the faithful model and of the code when the only copy of a state was left in ANOTHER worker's own pool by an earlier run (known finding), and when the reuse scope derived from pool_scope ignores a disabled pool scope (remote cluster mates without 'swarm', lxc beside remote without 'cluster': second known finding); both are reported as KNOWN-FINDING with their exact signatures, any other unavailable state is a VIOLATION. The monitor checks, at every test start observed on the real code, that each required state is in a place the test may fetch from - the worker's own pool (scope own), the shared pool (scope shared) or a pool named in get_location whose distance scope (swarm / cluster) is enabled - unless its producer (or creation pre-step) was attempted and did not pass. The model is compared with the real traversal on every atomic section of every generated run."),
        note=TRAV_NOTE,
        design="§5 C01"),
    "C02": dict(
        engine="corr-trace",
        technique="Coq proof (picks never fail on a not-ready node; for every schedule no execution in a dry run: invariant over resume/run_schedule; no path error for any number of workers: per-worker path invariant + frame for the other workers; for the plain single-worker configuration and every schedule an exit implies that every reachable ordinary own test has results or visible states: invariants AInv/EInv over resume/run_schedule) + trace refinement against hand-driven real coroutines; termination / no traversal error / definite results are monitors on the implementation's runs",
        text=('PARTIAL. Proved: pick_child/pick_parent succeed whenever the loop calls them (node not cleanup-/setup-ready); for every graph, pool population and schedule no node with dry_run is ever executed; for every graph meeting pwf_b (symmetric edges, root without parents and sole parent of the nodes below it; checked on every exported graph), every pool population, every schedule and ANY number of workers no section reports a pick from an exhausted node, a discontinuous path, an empty path or an exit away from the starting point (C02_no_path_errors, Proofs/TraversePath.v: the path of each worker stays a chain of edges ending in the root and a worker that is below the root has not dropped the child it descended through); for every graph meeting ewf_b (retry flags consistent; the form of an ordinary test of a worker shared by no other node that worker decides on; checked on every exported graph), every pool population, schedule and ANY number of workers: once a worker has left its loop, every ordinary test of that worker reachable from the root over such tests has all its own children dropped and, if it saves no state, some copy of its class has a result entry (C02_exit_means_done_any_workers, Proofs/TraverseExitN.v); for schedules in which every awaited test reports a status, the pending placeholders of a node are exactly as many as the workers awaiting a test on it, so once nobody runs nothing is pending (C02_no_pending_results_when_nobody_runs, Proofs/TraverseDefinite.v) and the reachable leaf tests of an exited worker have a result with a definite status on some copy (C02_exit_means_definite_result); for every single-worker graph meeting simple_b (checked on every generated single-worker graph), every pool population, schedule and outcome assignment: when the worker leaves its loop every ordinary own test the root reaches through child edges has results or all its set states visible, a stateless (leaf) one has results, and all own children of each have been dropped (C02_exit_means_every_reachable_test_was_dealt_with, C02_exit_means_subtree_visited, Proofs/TraverseExit.v; several workers and "definite status" stay with the monitors). Checked on every generated run of the real code: all workers exit with path [root], no traversal error, every leaf has a non-pending result (runs without never-reported outcomes), dry runs touch nothing. Termination is not proved (lazy expansion and the bump are outside the model). A non-termination found this way (failing creation pre-step retried without bound) was repaired (fix: f7f35cf).'),
        note=TRAV_NOTE,
        design="§5 C02"),
    "C03": dict(
        engine="corr-trace",
        technique="Coq proof (for every schedule flat tests and clone sources are never executed: invariant over resume/run_schedule; rerun is granted only below max_tries; a setup test found present at its first examination is never executed: class invariant along a trace automaton over resume/run_schedule) + trace refinement; the per-scope execution count is a monitor on the implementation's runs",
        text=('PARTIAL. Proved for all graphs, pools and schedules: flat and clone-source nodes are never executed; should_rerun grants a rerun only while the counted results (in-flight placeholders included) are below max_tries; a stateless test without results runs once; for every graph, pool population and schedule a test that saves no state is started only with an identifier (= number of results on its class so far) below its budget max(1, max_tries) and is therefore executed on a node copy at most that often (C03_stateless_executions_within_budget, Proofs/TraverseUid.v; stateful tests, whose scan-triggered runs are not bounded by the counter alone, stay with the monitor). For the global reuse scope, every graph meeting cls_all_b (checked on every exported graph; fails only for mixed lxc/remote worker sets under a partial pool_scope), every pool population, schedule and any number of workers: if the first thing that happens to the copies of a setup test (before any worker failed) is an examination that finds its states present, no copy is ever executed in the run (C03_present_setup_never_executed, Proofs/TraversePresent.v: trace automaton + class invariant: finished marker and no results). The answer of the scan is classified as in Model/Scan.v (C03_scan_runs_only_on_missing_state: run only when the check run reported a missing state; a fault of the check run is an error) and the real scan_states is run under a stubbed door against it. Checked on the real code: executions per class and reuse scope <= max(1, max_tries) (unless an occupation bump occurred or max_concurrent_tries exceeds max_tries), setup found present at first examination is not executed, execution ids are not reused. A budget violation found this way (concurrent creation pre-steps) was repaired (fix: e60d612).'),
        note=TRAV_NOTE,
        design="§5 C03"),
    "C04": dict(
        engine="corr-trace",
        technique='Coq proof by invariant over all schedules of the traversal model (a worker awaiting a test holds that node copy marker; the number of distinct marker holders of a globally scoped class never exceeds the largest threshold of its copies) under graph hypotheses that are an executable check evaluated on every exported graph + trace refinement of the model against hand-driven real coroutines; the concurrency count on the implementation is additionally a monitor',
        text=("Proved for EVERY graph meeting gwf_b, initial pool population and schedule (Proofs/TraverseExcl.v, C04_mutual_exclusion): at the state reached, the number of workers awaiting a test (creation pre-step included) on a copy of one globally scoped class is at most the largest threshold among the copies - max_concurrent_tries, else max_tries, at least 1, or the value after re-entrancy bumps, which only happen after a worker waited longer than the node's time budget (C04_bound_without_overrun: without a bump the bound is the configured limit); C04_running_holds_marker; plus the local test-and-set lemmas. gwf_b (one owner per composite node, bridged copies form classes agreeing on flat and reuse scope, root marked) is evaluated on every exported graph: its structural part must hold (obligation), the scope agreement fails exactly for mixed lxc/remote worker sets under a partial pool_scope, which stay outside the theorem. C04_mutual_exclusion_per_swarm: the same bound for the workers of each swarm when the reuse scope is one swarm; C04_one_test_per_worker for per-worker scopes. PARTIAL only in that the model is tied to the code by the trace correspondence (and the monitor counts on the implementation), and that graphs whose copies disagree on the scope are outside the theorems. Checked on the real code over random schedules with 2-4 workers meeting at the same node: never more than max(1, max_concurrent_tries or max_tries) workers of a scope inside one class, creation pre-step + installation counting as one interval; back-off periods equal the model's."),
        note=TRAV_NOTE,
        design="§5 C04"),
    "C05": dict(
        engine="corr-trace",
        technique='Coq proof (clean decision of a node with removable states implies every involved worker is done with all dependants and nobody runs it; removal requests contain only states marked f., selected, non-net; default pool filter never copies) + trace refinement; timing of removals against running/pending dependants is a monitor',
        text=("Proved for all graphs/states: C05_unset_only_after_dependants (decision level), C05_only_if_asked, C05_default_filter_inert; for EVERY schedule (Proofs/TraverseDoor.v, C05_removals_only_marked_all_schedules): each removal request comes from the node's own worker, in the atomic section of that worker's positive clean decision on that node, and names only states of that node marked for removal (unset_mode f.), of a selected vm, not net states. For the pools themselves (Proofs/TraverseKeep.v, C05_unmarked_states_persist): for every graph, pool population, schedule and any number of workers a state that no node marks for removal and that is in a pool at some point of the run is in that pool at every later point. Checked on the real code: every door request (unset/get) equals the model's; no state is removed while a dependant that could fetch it is running or pending; nothing is requested at all when no state is marked and the filter is reuse/block. PARTIAL: 'after every dependant finished' over whole traces is the monitor, the theorem is about the decision."),
        note=TRAV_NOTE,
        design="§5 C05"),
    "C08": dict(
        engine="corr-trace",
        technique="Coq proof by invariant over resume/run_schedule (for EVERY graph, pool population and schedule each execution is started by a worker whose id occurs in the node's name; foreign nodes make the decision fail; picks go to own or flat neighbours) + trace refinement incl. the pulled get_location lists; cache invariant for the shared remote sessions + correspondence with the real get_session",
        text=("Proved: C08_own_worker for all schedules (the code's ownership test = worker id is a substring of the name; the harness evaluates on every configuration that this coincides with 'parsed for that worker'); C08_named_sources_are_producers for all schedules (Proofs/TraverseLoc.v: every worker named in the get locations an execution is started with has a PASS result on one of that test's parents - PASS results never disappear and locations are only ever added from them). C08_session_goes_to_the_callers_address (Model/Session.v, Proofs/SessionProofs.v): for every sequence of get_session calls by any workers and any health-check outcomes the session handed out was opened to the caller's own address (cache invariant: an entry under key k was opened to k); the real TestWorker.get_session of workers parsed from nets.cfg (two clusters with equal host numbers included) is run against it under a stubbed login. Checked on the real code at every test start: started by the worker of the node's net, connection parameters are that worker's, every named location belongs to a worker with a PASS result on the producing class and comes with that worker's access parameters; the pulled locations equal the model's (compared as sets)."),
        note=TRAV_NOTE,
        design="§5 C08"),
    "C15": dict(
        engine="corr-pure",
        technique="Coq proof (worklist closure of flag_children; list lemmas for the run/remove sets of update on a chain of states) + correspondence: the real update tool under the selftests' job seam vs Model/Tools.v on a separately parsed state graph",
        text=("Proved: flag_children reaches exactly the nodes connected through child edges (with/without the start node); on a duplicate-free chain update_runs = the segment from from_state to to_state, both included, update_unsets = exactly what follows to_state. Checked: intertest_setup.update for (from,to) pairs along vm1's states x worker sets runs exactly those tests and removes exactly the states derived from to_state, touches no other vm, and rejects unknown states (made-up names and states that exist only in another vm's graph); a remove set given for one vm (remove_set_<vm>) acts like the same set given for all vms; updates of 2-3 vms on 2-4 workers (randomly delayed stub tests) execute every path test exactly once across all workers; updates of a vm selected without variant restriction (CentOS and Fedora) execute the path once for every variant. PARTIAL: the state graph given to the model comes from the real parser."),
        note=COMMON_NOTE + "The selftests' job seam (mock job, stub run_test_task with random short delays, recording door) stands for the avocado job and the remote state control.",
        design="§5 C15"),
    "C20": dict(
        engine="corr-pure",
        technique="Coq proof by induction over the chain (all steps run in order; return code 1 iff some step failed) + invariant over schedules (only the own worker executes a node) + correspondence: real Manu.run with stub steps (exhaustive up to length 3) and the real per-vm / per-worker tools under the selftests' job seam",
        text=("Proved: chain theorems for any chain; C20_only_own_worker_partial for any schedule. Checked: Manu.run against the model for every chain of up to 3 outcomes over {None, 0, 1, 2, raise} and for chains that use a step several times; a tool whose tests fail returns a failure status; every step of a chain of real tools run on one shared configuration executes exactly what the same step executes alone on a fresh configuration (the parameters of one step do not leak into the next); check/get/set/unset/push/pop/clean/collect/create execute exactly once per selected vm and worker with the step's vm_action, boot/shutdown once per worker with all selected vms, nothing for unselected vms (evaluated by Check.C20.star_ok). PARTIAL: 'exactly once' is checked on the real tools, not proved for the traversal model."),
        note=COMMON_NOTE + "The selftests' job seam (mock job, stub run_test_task with random short delays, recording door) stands for the avocado job and the remote state control.",
        design="§5 C20"),
    "C14": dict(
        engine="corr-proc",
        technique="Coq proof (file-system model with one-level links: case analysis + store lemmas for exactness / no-destruction; invariant over the event list of a lock-protocol transition system for mutual exclusion, release, time-out) + correspondence: exhaustive small file-system state space on real directories, and acceptance of lock traces recorded from real forked processes (kills, injected failures, time-outs)",
        text=("Theorems over Model/Transfer.v: download/upload leave the source unchanged and make the destination's content equal to it, and do nothing "
              "when both already match; delete removes exactly the pool file; every failing operation leaves all files as they were; link-mode download "
              "never replaces a regular file by a link and never touches the pool file; upload of a link is refused. Lock protocol LTS (any number "
              "of processes, any interleaving): at most one process inside; leaving (normally or by exception) or dying frees the lock; a process "
              "that timed out never enters; entry only through a successful attempt on a free lock; at most `timeout` attempts. PARTIAL by "
              "nature: the kernel semantics of fcntl.lockf is the LTS's definition of TryLock/Crash - exercised on real processes, not proved."),
        note=COMMON_NOTE + "Real temporary directories and forked processes; acquisitions/releases are logged inside the locked region with CLOCK_MONOTONIC; the 1 s retry sleep is shortened in the children; md5 equality stands for content equality; links are one level deep (flat_links hypothesis). Remote (ssh) transfer variants are not modelled.",
        design="§5 C14"),
    "C16": dict(
        engine="corr-pure",
        technique="Coq proof (invariant over insert sequences; induction over register sequences) + model/implementation correspondence by vm_compute",
        text=("Theorems over Model/Trie.v and Model/Register.v for all parser-shaped name lists, orders, queries and register "
              "sequences (no size bound): get = the distinct names containing the query contiguously, each once; "
              "order-independent; __contains__ agrees with get; counters/workers exact. The models are compared with "
              "PrefixTree/EdgeRegister on thousands of generated cases per run; sharing among bridged nodes is probed on real "
              "TestNode objects (proof of the aliasing pattern is part of C09)."),
        note=COMMON_NOTE + "The model snapshots variant_nodes[v0] during insert (equal to the live iteration unless a name repeats its own first variant, which the property excludes).",
        design="§5 C16"),
    "C10": dict(
        engine="corr-pure",
        technique="Coq proof (characterisation of the should_rerun decision table by case analysis + lia; induction over start/report event lists for identifier distinctness; list induction for look-up and verdict) + model/implementation correspondence by vm_compute on real TestNode/TestRunner objects",
        text=("Theorems over Model/Retry.v: should_rerun answers True iff tries remain, every status so far is in the rerun set and none in the stop "
              "set (any status list, any valid setting); any invalid setting (non-status word, non-integer or negative max_tries) gives an error on "
              "every runnable node; with the replay defaults a test is executed again iff it has no acceptable previous result (stateless) or a "
              "state it produces is missing (stateful); the previous results of a replay are exactly the results of all named jobs (C10_previous_results_are_all_jobs; compared with results_from_previous_jobs on real result files); the uid suffixes handed out over any interleaving of starts and reports are pairwise "
              "distinct and the (name, uid) look-up returns the own result; the verdict is true iff every executed name has an OK result; the "
              "same over the traversal model for EVERY graph, pool population and schedule (Proofs/TraverseUid.v): two executions of one node whose class "
              "has no object-creation node carry strictly increasing identifiers (C10_identifiers_strictly_increase), a section starts at most one "
              "execution, and every execution leaves one entry - result or pending placeholder - on its class (tied to the code by a batch of "
              "retry-heavy traversals compared section by section inside this check; PARTIAL for object-creation nodes, whose two-step start is only monitored); the "
              "duration check never changes acceptability. Compared with the real should_rerun, default_run_decision, run_test_node (stub "
              "task) and all_results_ok. PARTIAL for the dynamic clause: that the traversal consults these functions at the right moments "
              "is covered by the traversal model of C03, not here."),
        note=COMMON_NOTE + "The token split of rerun_status/stop_status and int() parsing of max_tries are reproduced by the harness; statuses are an 8-value enumeration; durations are integers (exact under the float comparison).",
        design="§5 C10"),
    "C11": dict(
        engine="corr-pure",
        technique="Coq proof (induction over the argument list of a string-level model of the tokenizing loop: rejection lemmas, monotone flags for the nets conflict, characterisation of tests_str and of param_dict; list lemmas for the restriction semantics) + model/implementation correspondence by vm_compute against params_from_cmd and against the Cartesian parser (parse_flat_nodes)",
        text=("Theorems over Model/CmdLine.v (arguments as strings, any list): tests_str is exactly the only=/no= arguments in order plus the default "
              "primary restriction iff none of their variants is a primary restriction; a free K=V ends in param_dict with the last value and commas "
              "as spaces; a malformed argument, an unknown vm in vms=, a restriction of an unknown object, and nets= together with an effective "
              "only_nets/no_nets in either order make the command line fail wherever they stand. Over Model/Restr.v: selection = universe "
              "filtered by every only (match) and no (no match) line; repeated only lines intersect, in any grouping; two comma-free only= "
              "equal the '..' form (with the counterexample for commas); contiguity characterised. Compared with params_from_cmd on generated "
              "argument lists (incl. a malformed stream) and with parse_flat_nodes over the shipped suite's 138 flat tests. Two defects found this way "
              "were repaired (fix: 9558fd9, 902d1ac). PARTIAL: 'the override reaches every parsed test' is covered only through the param_dict handed "
              "to the parser, not by a model of the Cartesian parser."),
        note=COMMON_NOTE + "Configuration data (available vms / restrictions, configured defaults, answers of all_suffixes_by_restriction) is read from the real configs by the harness and passed to the model as its environment; \\w is modelled as [A-Za-z0-9_]; virttest's Cartesian Filter is modelled by Restr.matches (checked against the real parser, not proved).",
        design="§5 C11"),
    "C12": dict(
        engine="corr-pure",
        technique="Coq proof (case analysis for the policy table; refinement of the call-level model to a set-of-names specification by induction over the object list and over operation sequences; frame and call-addressing invariants) + model/implementation correspondence by vm_compute (exhaustive single-object product + random sequences)",
        text=("Theorems over Model/StateOps.v (call-level transcription of check/get/set/unset/push/pop_states) and Model/StateSpec.v "
              "(set-of-names store driven by the README policy table): the three if/elif chains equal the table for all 2x25 inputs; for every "
              "operation, object list (any number of vms/images) and store the model's store and result are those of the specification, and so "
              "for every operation sequence; an abort or invalid policy leaves the store unchanged unless the object's check_mode forces the root "
              "(then exactly the root of that object is (re)created first - formalisation note in DESIGN.md); entries of objects outside the call "
              "never change; every backend call is about an addressed object (not a skipped type, not a readonly image, with an <op>_state). "
              "The model is compared call by call (backend call log, result, final store) with the real functions through an in-memory backend "
              "registered in BACKENDS, exhaustively over op x 25 modes x presence x root x keyword x type x check modes, plus random sequences."),
        note=COMMON_NOTE + "Params.object_params is reached through the real call (library code); the in-memory backend's semantics (unset_root drops the object's states) is harness glue; mode strings are two letters over {a,r,i,f,x}.",
        design="§5 C12"),
    "C13": dict(
        engine="corr-pure",
        technique="Coq proof (the proximity sort is a stable descending permutation; induction over source lists for scope filtering, closest-source choice, all-mirrors, re-download iff, present-only-if, refusal) + model/implementation correspondence by vm_compute (exhaustive over scope subsets x short source lists, sampled beyond)",
        text=("Theorems over Model/Pool.v for any number of sources, any scope set and any pool/cache content: transport calls go only to sources whose "
              "scope is enabled and is not own, local get/set/unset only with own enabled; get contacts a source of maximal proximity among the "
              "permitted ones; set/unset contact exactly the permitted mirrors; a state (or root) is downloaded iff the chosen source has it and the "
              "local copy is missing or differs; a state is shown only if cached (own enabled) or in a permitted mirror; set without own and "
              "without the local state and set_root to the shared pool without a local root are refused before any transport. Compared call by call "
              "with SourcedStateBackend / RootSourcedStateBackend through stub transport and stub local methods."),
        note=COMMON_NOTE + "Gateways/hosts/paths are interned strings; Params.objects de-duplication of locations and Params.get_list splitting are library behaviour mirrored by the harness; TransferOps/QCOW2ImageTransfer below the transport seam are the subject of C14, not of this model.",
        design="§5 C13"),
    "C18": dict(
        engine="corr-pure",
        technique="Coq proof (finite sweep lifted for the 33 prefix lengths, lia/nia for membership and translation, induction for allocation, invariant over build/reattach) + model/implementation correspondence by vm_compute",
        text=("Theorems over Model/NetAddr.v: netmask<->prefix round trips, characterisation of subnet membership, exact allocation "
              "for every range (each offset once, in order, then exhaustion forever), translation keeps the host offset and fails "
              "exactly outside IPv4 space. Over Model/NetBuild.v (construction + reattachment as a state machine with a heap of "
              "netconfig objects): PARTIAL - for all parameters every recorded interface lies in its netconfig's network after any "
              "reattach sequence; full consistency (one registered netconfig per interface, distinct addresses) is a monitor on the "
              "implementation's state for well-formed configurations, and Examples show how it fails outside them."),
        note=COMMON_NOTE + "ipaddress is trusted; dotted-quad conversion is harness glue; reattach_interface modelled without proxy nic; netmask equality modelled on numbers.",
        design="§5 C18"),
    "C17": dict(
        engine="corr-pure",
        technique="Coq proof by induction over the image list (fold of list intersection) + exhaustive model/implementation correspondence over a 4-name universe; regexes tied by differential testing on printed listings",
        text=("Theorems over Model/VmStates.v for any number of images and any state lists: a vm state is listed iff every image "
              "(and, for ramfile, the memory file) has it; no duplicates are introduced; on/off tags are exactly the entries with "
              "non-zero/zero vm size and are disjoint. Compared with QCOW2VTBackend.show and RamfileBackend._show for ALL assignments "
              "of subsets of a 4-name universe to 1..3 images on every run, and with the two regexes on printed qemu-img listings "
              "with adversarial tags and sizes. The defect found (list.intersect / empty-first-image) was repaired in both backends "
              "(fix: 94d77b5, 6f86aee); the pinned behaviour is kept as refutation Examples."),
        note=COMMON_NOTE + "The qemu-img listing printer is harness glue (two column layouts, tags shorter than the tag column); Python's re is trusted.",
        design="§5 C17"),
    "C19": dict(
        engine="corr-pure",
        technique="Coq proof by case analysis over the finite type product with universally quantified opaque values + exhaustive model/implementation correspondence over that product",
        text=("Theorems over Model/Tunnel.v for every (local, remote, peer, auth) combination and all network/address/identity values: "
              "local/remote networks mirror, peer addresses point at each other, PSK identities are swapped, the right-hand types are the "
              "documented counterpart, a combination is rejected iff it contains an unsupported type; connects_nodes is symmetric whenever "
              "no membership test raises. The product (with one invalid value per dimension) is enumerated exhaustively against "
              "VMTunnel.__init__ on every run; connects_nodes is compared on random networks for all ordered node pairs. Two defects "
              "found this way were repaired (fix: commits 2747ee2, 51512dc); the pinned behaviour is kept as refutation Examples."),
        note=COMMON_NOTE + "Networks/addresses/ids are opaque values; a netmask mismatch against a custom tunnel end raises IndexError by design and is a hypothesis of the symmetry theorem.",
        design="§5 C19"),
}

NOT_YET = "check not built yet (see DESIGN.md §7 build order); no claim is made for this property in this commit"


def main():
    checks = []
    for pid in ALL:
        if pid not in CHECKS:
            continue
        c = CHECKS[pid]
        checks.append({
            "property_id": pid,
            "quick_cmd": f"./check {pid} --tier quick",
            "thorough_cmd": f"./check {pid} --tier thorough",
            "evidence_file": f"evidence/{pid}.json",
            "replay_cmd_template": f"./check {pid} --replay {{path}}",
            "engine": c["engine"],
            "level_claimed": {"category": "proof", "text": c["text"], "design_ref": c["design"]},
            "level_note": c["note"],
            "technique": c["technique"],
        })
    manifest = {
        "version": 1,
        "setup_cmd": "./setup.sh",
        "hooks": {
            "guard": "AVOCADO_I2N_VERIF",
            "enable": "no source hooks: the harness reaches the code through the seams the selftests use (unittest.mock.patch from outside); ./check exports AVOCADO_I2N_VERIF=1 for uniformity",
            "baseline_off_cmd": "cd /repo && /venv/bin/python -m pytest -ra -q -p no:cacheprovider --timeout=900 --continue-on-collection-errors",
            "source_commits": [],
            "add_only": True,
        },
        "engines": [
            {"name": "coq", "path": "coq/", "serves_properties": sorted(CHECKS), "kind_free_text": "Coq 8.16.1 theories: Model (definitions), Proofs (lemmas), Props (property theorems + Print Assumptions), Check (executable checkers used by the correspondence)"},
            {"name": "corr-proc", "path": "harness/props/c14.py", "serves_properties": [p for p in sorted(CHECKS) if CHECKS[p]["engine"] == "corr-proc"], "kind_free_text": "real temporary directories and forked processes; observed file systems and lock traces evaluated by the Gallina model / acceptor"},
            {"name": "corr-trace", "path": "harness/trav.py", "serves_properties": [p for p in sorted(CHECKS) if CHECKS[p]["engine"] == "corr-trace"], "kind_free_text": "event-loop-free driver resuming the real traverse_object_trees coroutines one atomic section at a time; traces compared with Model/TraverseRun.v by vm_compute; property monitors on the implementation's pools and events"},
            {"name": "corr-graph", "path": "harness/graphx.py", "serves_properties": [p for p in sorted(CHECKS) if CHECKS[p]["engine"] == "corr-graph"], "kind_free_text": "real parses of the shipped suite in worker processes, exported to Model/Graph.v terms and judged by verified checkers (vm_compute)"},
            {"name": "corr-pure", "path": "harness/", "serves_properties": [p for p in sorted(CHECKS) if CHECKS[p]["engine"] == "corr-pure"], "kind_free_text": "generated cases run through the real Python code and through the Gallina model (cases.v + vm_compute), diffed inside Coq"},
        ],
        "checks": checks,
        "not_applicable": [{"property_id": p, "reason": NOT_YET} for p in ALL if p not in CHECKS],
        "notes": "Machine-checked proof in Coq over executable models + correspondence checks; see DESIGN.md.",
    }
    json.dump(manifest, open(os.path.join(ROOT, "MANIFEST.json"), "w"), indent=1)
    print("checks:", [c["property_id"] for c in checks])


if __name__ == "__main__":
    main()
