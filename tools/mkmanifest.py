#!/usr/bin/env python3
"""Writes /verif/MANIFEST.json from the table below (kept in one place so that the
manifest stays valid while properties are added)."""
import json
import os

ROOT = os.path.dirname(os.path.dirname(os.path.abspath(__file__)))
ALL = [f"C{i:02d}" for i in range(1, 21)]

COMMON_NOTE = ("Trusted: Coq 8.16.1 kernel (+ vm_compute), no axioms (Print Assumptions closed for every theorem, "
               "re-checked on each run), the hand-written Gallina model relative to the Python (tied by the "
               "correspondence check run on every invocation: model evaluated inside Coq on generated cases and "
               "compared with the implementation), the harness glue (case printing, canonicalisation). ")

CHECKS = {
    "C14": dict(
        engine="corr-proc",
        technique="Coq proof (file-system model with one-level links: case analysis + store lemmas for exactness / no-destruction; invariant over the event list of a lock-protocol transition system for mutual exclusion, release, time-out) + correspondence: exhaustive small file-system state space on real directories, and acceptance of lock traces recorded from real forked processes (kills, injected failures, time-outs)",
        text=("Theorems over Model/Transfer.v: download/upload leave the source unchanged and make the destination's content equal to it, and do nothing "
              "when both already match; delete removes exactly the pool file; every failing operation leaves all files as they were; link-mode download "
              "never replaces a regular file by a link and never touches the pool file; upload of a link is refused. Lock protocol LTS (any number "
              "of processes, any interleaving): at most one process inside; leaving (normally or by exception) or dying frees the lock; a process "
              "that timed out never enters; entry only through a successful attempt on a free lock; at most `timeout` attempts. PARTIAL by "
              "nature: the kernel semantics of fcntl.lockf is the LTS's definition of TryLock/Crash - exercised on real processes, not proved."),
        note=COMMON_NOTE + "Real temporary directories and forked processes; acquisitions/releases are logged inside the locked region with CLOCK_MONOTONIC; the 1 s retry sleep is shortened in the children; md5 equality stands for content equality; links are one level deep (flat_links hypothesis). Remote (ssh) transfer variants are not modelled.",
        design="§5 C14"),
    "C16": dict(
        engine="corr-pure",
        technique="Coq proof (invariant over insert sequences; induction over register sequences) + model/implementation correspondence by vm_compute",
        text=("Theorems over Model/Trie.v and Model/Register.v for all parser-shaped name lists, orders, queries and register "
              "sequences (no size bound): get = the distinct names containing the query contiguously, each once; "
              "order-independent; __contains__ agrees with get; counters/workers exact. The models are compared with "
              "PrefixTree/EdgeRegister on thousands of generated cases per run; sharing among bridged nodes is probed on real "
              "TestNode objects (proof of the aliasing pattern is part of C09)."),
        note=COMMON_NOTE + "The model snapshots variant_nodes[v0] during insert (equal to the live iteration unless a name repeats its own first variant, which the property excludes).",
        design="§5 C16"),
    "C10": dict(
        engine="corr-pure",
        technique="Coq proof (characterisation of the should_rerun decision table by case analysis + lia; induction over start/report event lists for identifier distinctness; list induction for look-up and verdict) + model/implementation correspondence by vm_compute on real TestNode/TestRunner objects",
        text=("Theorems over Model/Retry.v: should_rerun answers True iff tries remain, every status so far is in the rerun set and none in the stop "
              "set (any status list, any valid setting); any invalid setting (non-status word, non-integer or negative max_tries) gives an error on "
              "every runnable node; with the replay defaults a test is executed again iff it has no acceptable previous result (stateless) or a "
              "state it produces is missing (stateful); the uid suffixes handed out over any interleaving of starts and reports are pairwise "
              "distinct and the (name, uid) look-up returns the own result; the verdict is true iff every executed name has an OK result; the "
              "duration check never changes acceptability. Compared with the real should_rerun, default_run_decision, run_test_node (stub "
              "task) and all_results_ok. PARTIAL for the dynamic clause: that the traversal consults these functions at the right moments "
              "is covered by the traversal model of C03, not here."),
        note=COMMON_NOTE + "The token split of rerun_status/stop_status and int() parsing of max_tries are reproduced by the harness; statuses are an 8-value enumeration; durations are integers (exact under the float comparison).",
        design="§5 C10"),
    "C11": dict(
        engine="corr-pure",
        technique="Coq proof (induction over the argument list of a string-level model of the tokenizing loop: rejection lemmas, monotone flags for the nets conflict, characterisation of tests_str and of param_dict; list lemmas for the restriction semantics) + model/implementation correspondence by vm_compute against params_from_cmd and against the Cartesian parser (parse_flat_nodes)",
        text=("Theorems over Model/CmdLine.v (arguments as strings, any list): tests_str is exactly the only=/no= arguments in order plus the default "
              "primary restriction iff none of their variants is a primary restriction; a free K=V ends in param_dict with the last value and commas "
              "as spaces; a malformed argument, an unknown vm in vms=, a restriction of an unknown object, and nets= together with an effective "
              "only_nets/no_nets in either order make the command line fail wherever they stand. Over Model/Restr.v: selection = universe "
              "filtered by every only (match) and no (no match) line; repeated only lines intersect, in any grouping; two comma-free only= "
              "equal the '..' form (with the counterexample for commas); contiguity characterised. Compared with params_from_cmd on generated "
              "argument lists (incl. a malformed stream) and with parse_flat_nodes over the shipped suite's 138 flat tests. Two defects found this way "
              "were repaired (fix: 9558fd9, 902d1ac). PARTIAL: 'the override reaches every parsed test' is covered only through the param_dict handed "
              "to the parser, not by a model of the Cartesian parser."),
        note=COMMON_NOTE + "Configuration data (available vms / restrictions, configured defaults, answers of all_suffixes_by_restriction) is read from the real configs by the harness and passed to the model as its environment; \\w is modelled as [A-Za-z0-9_]; virttest's Cartesian Filter is modelled by Restr.matches (checked against the real parser, not proved).",
        design="§5 C11"),
    "C12": dict(
        engine="corr-pure",
        technique="Coq proof (case analysis for the policy table; refinement of the call-level model to a set-of-names specification by induction over the object list and over operation sequences; frame and call-addressing invariants) + model/implementation correspondence by vm_compute (exhaustive single-object product + random sequences)",
        text=("Theorems over Model/StateOps.v (call-level transcription of check/get/set/unset/push/pop_states) and Model/StateSpec.v "
              "(set-of-names store driven by the README policy table): the three if/elif chains equal the table for all 2x25 inputs; for every "
              "operation, object list (any number of vms/images) and store the model's store and result are those of the specification, and so "
              "for every operation sequence; an abort or invalid policy leaves the store unchanged unless the object's check_mode forces the root "
              "(then exactly the root of that object is (re)created first - formalisation note in DESIGN.md); entries of objects outside the call "
              "never change; every backend call is about an addressed object (not a skipped type, not a readonly image, with an <op>_state). "
              "The model is compared call by call (backend call log, result, final store) with the real functions through an in-memory backend "
              "registered in BACKENDS, exhaustively over op x 25 modes x presence x root x keyword x type x check modes, plus random sequences."),
        note=COMMON_NOTE + "Params.object_params is reached through the real call (library code); the in-memory backend's semantics (unset_root drops the object's states) is harness glue; mode strings are two letters over {a,r,i,f,x}.",
        design="§5 C12"),
    "C13": dict(
        engine="corr-pure",
        technique="Coq proof (the proximity sort is a stable descending permutation; induction over source lists for scope filtering, closest-source choice, all-mirrors, re-download iff, present-only-if, refusal) + model/implementation correspondence by vm_compute (exhaustive over scope subsets x short source lists, sampled beyond)",
        text=("Theorems over Model/Pool.v for any number of sources, any scope set and any pool/cache content: transport calls go only to sources whose "
              "scope is enabled and is not own, local get/set/unset only with own enabled; get contacts a source of maximal proximity among the "
              "permitted ones; set/unset contact exactly the permitted mirrors; a state (or root) is downloaded iff the chosen source has it and the "
              "local copy is missing or differs; a state is shown only if cached (own enabled) or in a permitted mirror; set without own and "
              "without the local state and set_root to the shared pool without a local root are refused before any transport. Compared call by call "
              "with SourcedStateBackend / RootSourcedStateBackend through stub transport and stub local methods."),
        note=COMMON_NOTE + "Gateways/hosts/paths are interned strings; Params.objects de-duplication of locations and Params.get_list splitting are library behaviour mirrored by the harness; TransferOps/QCOW2ImageTransfer below the transport seam are the subject of C14, not of this model.",
        design="§5 C13"),
    "C18": dict(
        engine="corr-pure",
        technique="Coq proof (finite sweep lifted for the 33 prefix lengths, lia/nia for membership and translation, induction for allocation, invariant over build/reattach) + model/implementation correspondence by vm_compute",
        text=("Theorems over Model/NetAddr.v: netmask<->prefix round trips, characterisation of subnet membership, exact allocation "
              "for every range (each offset once, in order, then exhaustion forever), translation keeps the host offset and fails "
              "exactly outside IPv4 space. Over Model/NetBuild.v (construction + reattachment as a state machine with a heap of "
              "netconfig objects): PARTIAL - for all parameters every recorded interface lies in its netconfig's network after any "
              "reattach sequence; full consistency (one registered netconfig per interface, distinct addresses) is a monitor on the "
              "implementation's state for well-formed configurations, and Examples show how it fails outside them."),
        note=COMMON_NOTE + "ipaddress is trusted; dotted-quad conversion is harness glue; reattach_interface modelled without proxy nic; netmask equality modelled on numbers.",
        design="§5 C18"),
    "C17": dict(
        engine="corr-pure",
        technique="Coq proof by induction over the image list (fold of list intersection) + exhaustive model/implementation correspondence over a 4-name universe; regexes tied by differential testing on printed listings",
        text=("Theorems over Model/VmStates.v for any number of images and any state lists: a vm state is listed iff every image "
              "(and, for ramfile, the memory file) has it; no duplicates are introduced; on/off tags are exactly the entries with "
              "non-zero/zero vm size and are disjoint. Compared with QCOW2VTBackend.show and RamfileBackend._show for ALL assignments "
              "of subsets of a 4-name universe to 1..3 images on every run, and with the two regexes on printed qemu-img listings "
              "with adversarial tags and sizes. The defect found (list.intersect / empty-first-image) was repaired in both backends "
              "(fix: 94d77b5, 6f86aee); the pinned behaviour is kept as refutation Examples."),
        note=COMMON_NOTE + "The qemu-img listing printer is harness glue (two column layouts, tags shorter than the tag column); Python's re is trusted.",
        design="§5 C17"),
    "C19": dict(
        engine="corr-pure",
        technique="Coq proof by case analysis over the finite type product with universally quantified opaque values + exhaustive model/implementation correspondence over that product",
        text=("Theorems over Model/Tunnel.v for every (local, remote, peer, auth) combination and all network/address/identity values: "
              "local/remote networks mirror, peer addresses point at each other, PSK identities are swapped, the right-hand types are the "
              "documented counterpart, a combination is rejected iff it contains an unsupported type; connects_nodes is symmetric whenever "
              "no membership test raises. The product (with one invalid value per dimension) is enumerated exhaustively against "
              "VMTunnel.__init__ on every run; connects_nodes is compared on random networks for all ordered node pairs. Two defects "
              "found this way were repaired (fix: commits 2747ee2, 51512dc); the pinned behaviour is kept as refutation Examples."),
        note=COMMON_NOTE + "Networks/addresses/ids are opaque values; a netmask mismatch against a custom tunnel end raises IndexError by design and is a hypothesis of the symmetry theorem.",
        design="§5 C19"),
}

NOT_YET = "check not built yet (see DESIGN.md §7 build order); no claim is made for this property in this commit"


def main():
    checks = []
    for pid in ALL:
        if pid not in CHECKS:
            continue
        c = CHECKS[pid]
        checks.append({
            "property_id": pid,
            "quick_cmd": f"./check {pid} --tier quick",
            "thorough_cmd": f"./check {pid} --tier thorough",
            "evidence_file": f"evidence/{pid}.json",
            "replay_cmd_template": f"./check {pid} --replay {{path}}",
            "engine": c["engine"],
            "level_claimed": {"category": "proof", "text": c["text"], "design_ref": c["design"]},
            "level_note": c["note"],
            "technique": c["technique"],
        })
    manifest = {
        "version": 1,
        "setup_cmd": "./setup.sh",
        "hooks": {
            "guard": "AVOCADO_I2N_VERIF",
            "enable": "no source hooks: the harness reaches the code through the seams the selftests use (unittest.mock.patch from outside); ./check exports AVOCADO_I2N_VERIF=1 for uniformity",
            "baseline_off_cmd": "cd /repo && /venv/bin/python -m pytest -ra -q -p no:cacheprovider --timeout=900 --continue-on-collection-errors",
            "source_commits": [],
            "add_only": True,
        },
        "engines": [
            {"name": "coq", "path": "coq/", "serves_properties": sorted(CHECKS), "kind_free_text": "Coq 8.16.1 theories: Model (definitions), Proofs (lemmas), Props (property theorems + Print Assumptions), Check (executable checkers used by the correspondence)"},
            {"name": "corr-proc", "path": "harness/props/c14.py", "serves_properties": [p for p in sorted(CHECKS) if CHECKS[p]["engine"] == "corr-proc"], "kind_free_text": "real temporary directories and forked processes; observed file systems and lock traces evaluated by the Gallina model / acceptor"},
            {"name": "corr-pure", "path": "harness/", "serves_properties": [p for p in sorted(CHECKS) if CHECKS[p]["engine"] == "corr-pure"], "kind_free_text": "generated cases run through the real Python code and through the Gallina model (cases.v + vm_compute), diffed inside Coq"},
        ],
        "checks": checks,
        "not_applicable": [{"property_id": p, "reason": NOT_YET} for p in ALL if p not in CHECKS],
        "notes": "Machine-checked proof in Coq over executable models + correspondence checks; see DESIGN.md.",
    }
    json.dump(manifest, open(os.path.join(ROOT, "MANIFEST.json"), "w"), indent=1)
    print("checks:", [c["property_id"] for c in checks])


if __name__ == "__main__":
    main()
