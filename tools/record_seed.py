#!/usr/bin/env python3
"""tools/record_seed.py NAME PROP BREAKS NEEDS CONFIRMED DETECTED [HOW] - writes seeded/NAME/meta.json and the INDEX row"""
import json, sys
name, prop, breaks, needs, confirmed, detected = sys.argv[1:7]
how = sys.argv[7] if len(sys.argv) > 7 else "failing input"
json.dump({"property": prop, "breaks": breaks, "needs": needs, "confirmed": confirmed, "detected_by": detected},
          open(f"/verif/seeded/{name}/meta.json", "w"), indent=1)
open("/verif/seeded/INDEX.md", "a").write(f"| {name} | {prop} | {needs} | `./check {prop}` | {how} |\n")
