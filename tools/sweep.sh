#!/bin/bash
# tools/sweep.sh "<seeds>" [tier] [jobs]: every registered check at each of the given seeds on the current tree;
# evidence goes to .work/ev (the committed evidence is left alone); prints only alarms and a summary
seeds="$1"; tier="${2:-quick}"; jobs="${3:-4}"
cd "$(dirname "$0")/.."
ids=$(python3 -c "import json; print(' '.join(c['property_id'] for c in json.load(open('MANIFEST.json'))['checks']))")
mkdir -p .work/sweep .work/ev
export VERIF_EVIDENCE_DIR=$PWD/.work/ev
for sd in $seeds; do for id in $ids; do echo "$sd $id"; done; done |
  xargs -P "$jobs" -L 1 sh -c 'VERIF_SEED=$0 ./check $1 --tier '"$tier"' > .work/sweep/$1-$0.log 2>&1; rc=$?; if [ $rc -ne 0 ] || grep -q VIOLATION .work/sweep/$1-$0.log; then echo "ALARM seed=$0 $1 exit=$rc: $(grep -h -A1 VIOLATION .work/sweep/$1-$0.log | head -4 | tr "\n" " ")"; fi'
echo "sweep done: seeds=[$seeds] tier=$tier"
