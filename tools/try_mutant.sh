#!/bin/bash
# tools/try_mutant.sh <PROP> <worktree-with-out-dir> [name] [extra props...]
# 1. confirms the demo (fails with the patch, passes without) in the scratch worktree
# 2. stores patch/demo/meta under seeded/<name>/
# 3. applies the patch to /repo, runs the quick check(s), reverts /repo
set -u
prop=$1; wt=$2; name=${3:-$prop-1}; shift 3 2>/dev/null || shift 2
extra="$@"
home=/tmp/mut_home_${wt##*/mut_}
cd "$wt" || exit 2
run_demo() { (cd "$wt" && HOME=$home PYTHONPATH=$wt:$wt/selftests/isolation timeout 900 /venv/bin/python out/demo.py >/tmp/demo_$name.log 2>&1; echo $?); }
if [ -s out/patch.diff ]; then cp out/patch.diff /tmp/patch_$name.diff; else git diff -- avocado_i2n > /tmp/patch_$name.diff; fi
# (never git stash here: the stash is shared by all worktrees of /repo)
git checkout -q -- avocado_i2n && git apply /tmp/patch_$name.diff
with=$(run_demo)
git apply -R /tmp/patch_$name.diff
without=$(run_demo)
git apply /tmp/patch_$name.diff
echo "demo exit with patch: $with   without patch: $without"
mkdir -p /verif/seeded/$name
cp /tmp/patch_$name.diff /verif/seeded/$name/patch.diff
cp out/demo.py /verif/seeded/$name/demo.py
cp out/notes.md /verif/seeded/$name/notes.md 2>/dev/null
cd /verif
export VERIF_EVIDENCE_DIR=/verif/.work/ev
if [ "${MUT_IN_WORKTREE:-0}" = "1" ]; then
  # run the checks against the patched scratch worktree (leaves /repo alone, e.g. while a sweep is running)
  export REPO_ROOT=$wt
else
  git -C /repo apply /verif/seeded/$name/patch.diff || { echo "patch does not apply to /repo"; exit 3; }
fi
for p in $prop $extra; do
  ./check $p --tier quick > /tmp/check_${name}_$p.log 2>&1
  echo "check $p exit=$? : $(grep -c VIOLATION /tmp/check_${name}_$p.log) violation line(s)"
  grep "VIOLATION" -A1 /tmp/check_${name}_$p.log | head -6
done
if [ "${MUT_IN_WORKTREE:-0}" != "1" ]; then git -C /repo checkout -- .; fi
rm -f /verif/replays/*  # replays of mutant runs are not kept
echo "demo_with=$with demo_without=$without" > /verif/seeded/$name/result.txt
