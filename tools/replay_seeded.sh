#!/bin/bash
# tools/replay_seeded.sh [jobs]: re-apply every seeded change (seeded/*/patch.diff) to a scratch worktree of /repo's HEAD and
# run the quick check of its property against it; writes seeded/LAST_REPLAY.md. /repo itself is not touched.
jobs=${1:-4}
only=${2:-}          # optional: file with the names of the seeded changes to replay (the table is then appended to the last one)
cd "$(dirname "$0")/.."
out=seeded/LAST_REPLAY.md
tmp=$(mktemp -d /tmp/replay_seeded.XXXX)
one() {
  d=$1; name=$(basename $d); prop=${name%%-*}
  wt=$tmp/wt_$name
  git -C /repo worktree add --detach $wt HEAD -q 2>/dev/null || { echo "| $name | $prop | worktree failed |"; return; }
  if ! git -C $wt apply $PWD/$d/patch.diff 2>/dev/null; then
    echo "| $name | $prop | patch does not apply to the current HEAD (written against an earlier tree) |"
  else
    log=$tmp/$name.log
    # the checks that are expected to notice it: the seed's own property unless meta.json names others ("checks")
    props=$(python3 -c "import json,sys; print(' '.join(json.load(open('$PWD/$d/meta.json')).get('checks', ['$prop'])))" 2>/dev/null || echo $prop)
    rc=0; : > $log
    for p in $props; do
      REPO_ROOT=$wt VERIF_EVIDENCE_DIR=$tmp/ev ./check $p --tier quick >> $log 2>&1 || rc=1
    done
    with_input=$(grep "VIOLATION" $log | grep -vc "no-failing-input-found")
    without=$(grep "VIOLATION" $log | grep -c "no-failing-input-found")
    if [ $rc -eq 0 ]; then res="MISSED (exit 0)"; else res="caught: $with_input with failing input, $without without"; fi
    echo "| $name | $prop | $res${props:+ (checks: $props)} |"
  fi
  git -C /repo worktree remove --force $wt 2>/dev/null
}
export -f one; export tmp PWD
{
  echo "# Last replay of the seeded changes against the quick checks ($(date -u +%F\ %H:%M) UTC, /repo $(git -C /repo log --format=%h -1))"
  echo
  echo "| seeded change | property | result |"
  echo "|---|---|---|"
  if [ -n "$only" ]; then sed 's:^:seeded/:' "$only"; else ls -d seeded/*/ | sed 's:/$::'; fi | xargs -P $jobs -I{} bash -c 'one {}' | sort
} > $out.tmp
if [ -n "$only" ]; then { echo; echo "## later additions, replayed separately"; echo; cat $out.tmp; } >> $out; rm -f $out.tmp; else mv $out.tmp $out; fi
find replays -name "*.json" -newer $tmp -delete 2>/dev/null
rm -rf $tmp
git -C /repo worktree prune
cat $out
